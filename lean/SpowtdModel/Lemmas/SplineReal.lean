import SpowtdModel.Lemmas.RealNum
import SpowtdModel.Model.Simulate
import Mathlib.MeasureTheory.Integral.IntervalIntegral.FundThmCalculus
/- Helper lemmas for Props/C14, C17, C18 (real analysis). -/
namespace Spowtd
open Classical

/-! ### The `Num ℝ` instance unfolds to ordinary real operations -/

@[simp] theorem num_add (a b : ℝ) : Num.add a b = a + b := rfl
@[simp] theorem num_sub (a b : ℝ) : Num.sub a b = a - b := rfl
@[simp] theorem num_mul (a b : ℝ) : Num.mul a b = a * b := rfl
@[simp] theorem num_div (a b : ℝ) : Num.div a b = a / b := rfl
@[simp] theorem num_neg (a : ℝ) : Num.neg a = -a := rfl
@[simp] theorem num_ofInt (i : Int) : (Num.ofInt i : ℝ) = (i : ℝ) := rfl
theorem num_lt_iff (a b : ℝ) : Num.lt a b = true ↔ a < b := by
  show decide (a < b) = true ↔ a < b
  exact decide_eq_true_iff
theorem num_le_iff (a b : ℝ) : Num.le a b = true ↔ a ≤ b := by
  show decide (a ≤ b) = true ↔ a ≤ b
  exact decide_eq_true_iff
theorem num_beq_iff (a b : ℝ) : Num.beq a b = true ↔ a = b := by
  show decide (a = b) = true ↔ a = b
  exact decide_eq_true_iff
@[simp] theorem num_lt (a b : ℝ) : Num.lt a b = decide (a < b) := by
  rw [Bool.eq_iff_iff, num_lt_iff, decide_eq_true_iff]
@[simp] theorem num_le (a b : ℝ) : Num.le a b = decide (a ≤ b) := by
  rw [Bool.eq_iff_iff, num_le_iff, decide_eq_true_iff]
@[simp] theorem num_beq (a b : ℝ) : Num.beq a b = decide (a = b) := by
  rw [Bool.eq_iff_iff, num_beq_iff, decide_eq_true_iff]

@[simp] theorem num_max (a b : ℝ) : Num.max a b = max a b := by
  unfold Num.max
  by_cases h : a < b
  · rw [if_pos ((num_lt_iff a b).2 h), max_eq_right h.le]
  · rw [if_neg (fun h' => h ((num_lt_iff a b).1 h')), max_eq_left (not_lt.1 h)]

@[simp] theorem num_min (a b : ℝ) : Num.min a b = min a b := by
  unfold Num.min
  by_cases h : b < a
  · rw [if_pos ((num_lt_iff b a).2 h), min_eq_right h.le]
  · rw [if_neg (fun h' => h ((num_lt_iff b a).1 h')), min_eq_left (not_lt.1 h)]

@[simp] theorem clampTo_real (lo hi x : ℝ) : clampTo lo hi x = min (max x lo) hi := by
  unfold clampTo; rw [num_max, num_min]

theorem foldl_add_real (l : List ℝ) (a : ℝ) : List.foldl Num.add a l = a + l.sum := by
  induction l generalizing a with
  | nil => simp
  | cons x xs ih => rw [List.foldl_cons, ih, List.sum_cons, num_add, add_assoc]

@[simp] theorem num_sum (l : List ℝ) : Num.sum l = l.sum := by
  unfold Num.sum; rw [foldl_add_real]; simp

theorem evalExt_real (inner : ℝ → ℝ) (xmin xmax x : ℝ) :
    evalExt inner xmin xmax x = inner (min (max x xmin) xmax) := by
  unfold evalExt; rw [clampTo_real]

/-! ### C14: `integrateExt` is the area under `evalExt` -/
open intervalIntegral

theorem integrateCore_real (inner : ℝ → ℝ) (splint : ℝ → ℝ → ℝ) (xmin xmax a b : ℝ)
    (hx : xmin ≤ xmax) :
    integrateCore inner splint xmin xmax a b =
      (if a < xmin then inner xmin * (min xmin b - a) else 0) +
      (if xmin < b then splint (max a xmin) (min xmax b) else 0) +
      (if xmax < b then inner xmax * (b - max a xmax) else 0) := by
  have e1 : min (max xmin xmin) xmax = xmin := by rw [max_self, min_eq_left hx]
  have e2 : min (max (max a xmax) xmin) xmax = xmax :=
    min_eq_right (le_trans (le_max_right a xmax) (le_max_left _ _))
  unfold integrateCore
  simp only [num_add, num_sub, num_mul, num_ofInt, num_lt, num_max, num_min, evalExt_real,
    decide_eq_true_eq, e1, e2, Int.cast_zero]
  split_ifs <;> ring

theorem continuous_evalExt (inner : ℝ → ℝ) (hc : Continuous inner) (xmin xmax : ℝ) :
    Continuous (fun x => evalExt inner xmin xmax x) := by
  have : (fun x => evalExt inner xmin xmax x) = fun x => inner (min (max x xmin) xmax) := by
    funext x; exact evalExt_real _ _ _ _
  rw [this]
  exact hc.comp ((continuous_id.max continuous_const).min continuous_const)

theorem integral_evalExt_low (inner : ℝ → ℝ) (xmin xmax u v : ℝ) (hx : xmin ≤ xmax)
    (hu : u ≤ xmin) (hv : v ≤ xmin) :
    ∫ x in u..v, evalExt inner xmin xmax x = inner xmin * (v - u) := by
  have : ∫ x in u..v, evalExt inner xmin xmax x = ∫ _x in u..v, inner xmin := by
    apply integral_congr
    intro x hxm
    have hxle : x ≤ xmin := le_trans hxm.2 (max_le hu hv)
    show evalExt inner xmin xmax x = inner xmin
    rw [evalExt_real, max_eq_right hxle, min_eq_left hx]
  rw [this, intervalIntegral.integral_const, smul_eq_mul, mul_comm]

theorem integral_evalExt_high (inner : ℝ → ℝ) (xmin xmax u v : ℝ) (hx : xmin ≤ xmax)
    (hu : xmax ≤ u) (hv : xmax ≤ v) :
    ∫ x in u..v, evalExt inner xmin xmax x = inner xmax * (v - u) := by
  have : ∫ x in u..v, evalExt inner xmin xmax x = ∫ _x in u..v, inner xmax := by
    apply integral_congr
    intro x hxm
    have hxge : xmax ≤ x := le_trans (le_min hu hv) hxm.1
    show evalExt inner xmin xmax x = inner xmax
    rw [evalExt_real, max_eq_left (le_trans hx hxge), min_eq_right hxge]
  rw [this, intervalIntegral.integral_const, smul_eq_mul, mul_comm]

theorem integral_evalExt_mid (inner : ℝ → ℝ) (xmin xmax u v : ℝ)
    (hu : xmin ≤ u) (huv : u ≤ v) (hv : v ≤ xmax) :
    ∫ x in u..v, evalExt inner xmin xmax x = ∫ x in u..v, inner x := by
  apply integral_congr
  intro x hxm
  rw [Set.uIcc_of_le huv] at hxm
  show evalExt inner xmin xmax x = inner x
  rw [evalExt_real, max_eq_left (le_trans hu hxm.1), min_eq_left (le_trans hxm.2 hv)]


section
variable (inner : ℝ → ℝ) (splint : ℝ → ℝ → ℝ) (xmin xmax : ℝ)

theorem integrateCore_is_area (hx : xmin ≤ xmax) (hc : Continuous inner)
    (hs : ∀ lo hi, xmin ≤ lo → lo ≤ hi → hi ≤ xmax → splint lo hi = ∫ x in lo..hi, inner x)
    (hz : ∀ lo, xmax ≤ lo → splint lo xmax = 0) (a b : ℝ) (hab : a < b) :
    integrateCore inner splint xmin xmax a b = ∫ x in a..b, evalExt inner xmin xmax x := by
  have hcont := continuous_evalExt inner hc xmin xmax
  have hint : ∀ u v, IntervalIntegrable (fun x => evalExt inner xmin xmax x) MeasureTheory.volume u v :=
    fun u v => hcont.intervalIntegrable u v
  rw [integrateCore_real inner splint xmin xmax a b hx]
  by_cases h1 : a < xmin
  · rw [if_pos h1]
    by_cases h2 : xmin < b
    · rw [if_pos h2, max_eq_right h1.le, min_eq_left h2.le]
      by_cases h3 : xmax < b
      · rw [if_pos h3, min_eq_left h3.le, max_eq_right (le_trans h1.le hx)]
        rw [← integral_add_adjacent_intervals (hint a xmin) (hint xmin b),
          ← integral_add_adjacent_intervals (hint xmin xmax) (hint xmax b),
          integral_evalExt_low inner xmin xmax a xmin hx h1.le le_rfl,
          integral_evalExt_mid inner xmin xmax xmin xmax le_rfl hx le_rfl,
          integral_evalExt_high inner xmin xmax xmax b hx le_rfl h3.le,
          hs xmin xmax le_rfl hx le_rfl]
        ring
      · rw [if_neg h3, min_eq_right (not_lt.1 h3)]
        rw [← integral_add_adjacent_intervals (hint a xmin) (hint xmin b),
          integral_evalExt_low inner xmin xmax a xmin hx h1.le le_rfl,
          integral_evalExt_mid inner xmin xmax xmin b le_rfl h2.le (not_lt.1 h3),
          hs xmin b le_rfl h2.le (not_lt.1 h3)]
        ring
    · have hb : b ≤ xmin := not_lt.1 h2
      rw [if_neg h2, if_neg (not_lt.2 (le_trans hb hx)), min_eq_right hb,
        integral_evalExt_low inner xmin xmax a b hx h1.le hb]
      ring
  · have ha : xmin ≤ a := not_lt.1 h1
    have h2 : xmin < b := lt_of_le_of_lt ha hab
    rw [if_neg h1, if_pos h2, max_eq_left ha]
    by_cases h3 : xmax < b
    · rw [if_pos h3, min_eq_left h3.le]
      by_cases h4 : a ≤ xmax
      · rw [max_eq_right h4,
          ← integral_add_adjacent_intervals (hint a xmax) (hint xmax b),
          integral_evalExt_mid inner xmin xmax a xmax ha h4 le_rfl,
          integral_evalExt_high inner xmin xmax xmax b hx le_rfl h3.le,
          hs a xmax ha h4 le_rfl]
        ring
      · have h4' : xmax ≤ a := (not_le.1 h4).le
        rw [max_eq_left h4', hz a h4',
          integral_evalExt_high inner xmin xmax a b hx h4' (le_trans h4' hab.le)]
        ring
    · have hb : b ≤ xmax := not_lt.1 h3
      rw [if_neg h3, min_eq_right hb,
        integral_evalExt_mid inner xmin xmax a b ha hab.le hb, hs a b ha hab.le hb]
      ring

theorem integrateExt_real (a b : ℝ) :
    integrateExt inner splint xmin xmax a b =
      if b < a then - integrateCore inner splint xmin xmax b a
      else if a = b then 0 else integrateCore inner splint xmin xmax a b := by
  unfold integrateExt
  simp only [num_lt, num_beq, num_neg, num_ofInt, decide_eq_true_eq, Int.cast_zero]

theorem integrateExt_is_area (hx : xmin ≤ xmax) (hc : Continuous inner)
    (hs : ∀ lo hi, xmin ≤ lo → lo ≤ hi → hi ≤ xmax → splint lo hi = ∫ x in lo..hi, inner x)
    (hz : ∀ lo, xmax ≤ lo → splint lo xmax = 0) (a b : ℝ) :
    integrateExt inner splint xmin xmax a b = ∫ x in a..b, evalExt inner xmin xmax x := by
  rw [integrateExt_real]
  by_cases h1 : b < a
  · rw [if_pos h1, integrateCore_is_area inner splint xmin xmax hx hc hs hz b a h1,
      integral_symm, neg_neg]
  · rw [if_neg h1]
    by_cases h2 : a = b
    · rw [if_pos h2, h2, integral_same]
    · rw [if_neg h2]
      exact integrateCore_is_area inner splint xmin xmax hx hc hs hz a b
        (lt_of_le_of_ne (not_lt.1 h1) h2)

theorem integrateExt_antisymm (a b : ℝ) :
    integrateExt inner splint xmin xmax b a = - integrateExt inner splint xmin xmax a b := by
  rw [integrateExt_real, integrateExt_real]
  rcases lt_trichotomy a b with h | h | h
  · rw [if_pos h, if_neg (not_lt.2 h.le), if_neg (ne_of_lt h)]
  · subst h; simp
  · rw [if_neg (not_lt.2 h.le), if_neg (ne_of_lt h), if_pos h, neg_neg]

theorem integrateExt_self (a : ℝ) : integrateExt inner splint xmin xmax a a = 0 := by
  rw [integrateExt_real]; simp

theorem integrateExt_additive (hx : xmin ≤ xmax) (hc : Continuous inner)
    (hs : ∀ lo hi, xmin ≤ lo → lo ≤ hi → hi ≤ xmax → splint lo hi = ∫ x in lo..hi, inner x)
    (hz : ∀ lo, xmax ≤ lo → splint lo xmax = 0) (a b c : ℝ) :
    integrateExt inner splint xmin xmax a b + integrateExt inner splint xmin xmax b c =
      integrateExt inner splint xmin xmax a c := by
  have hcont := continuous_evalExt inner hc xmin xmax
  rw [integrateExt_is_area inner splint xmin xmax hx hc hs hz,
    integrateExt_is_area inner splint xmin xmax hx hc hs hz,
    integrateExt_is_area inner splint xmin xmax hx hc hs hz]
  exact integral_add_adjacent_intervals (hcont.intervalIntegrable a b) (hcont.intervalIntegrable b c)

theorem integrateExt_nonneg (hx : xmin ≤ xmax) (hc : Continuous inner) (hpos : ∀ x, 0 ≤ inner x)
    (hs : ∀ lo hi, xmin ≤ lo → lo ≤ hi → hi ≤ xmax → splint lo hi = ∫ x in lo..hi, inner x)
    (hz : ∀ lo, xmax ≤ lo → splint lo xmax = 0) (a b : ℝ) (hab : a ≤ b) :
    0 ≤ integrateExt inner splint xmin xmax a b := by
  rw [integrateExt_is_area inner splint xmin xmax hx hc hs hz]
  apply integral_nonneg hab
  intro u _
  rw [evalExt_real]; exact hpos _

end

/-! ### C17: cumulative curves -/

theorem centre_real (w : List ℝ) (m : ℝ) :
    centre w m = w.map (fun v => v + (m - w.sum / (w.length : ℝ))) := by
  unfold centre
  simp only [num_add, num_sub, num_div, num_sum, num_ofInt, Int.cast_natCast]

theorem centre_length (w : List ℝ) (m : ℝ) : (centre w m).length = w.length := by
  rw [centre_real, List.length_map]

theorem sum_map_add_const (w : List ℝ) (c : ℝ) :
    (w.map (fun v => v + c)).sum = w.sum + (w.length : ℝ) * c := by
  induction w with
  | nil => simp
  | cons x xs ih =>
    rw [List.map_cons, List.sum_cons, ih, List.sum_cons, List.length_cons, Nat.cast_succ]
    ring

theorem centre_mean (w : List ℝ) (m : ℝ) (hne : w ≠ []) :
    (centre w m).sum / ((centre w m).length : ℝ) = m := by
  have hn : (w.length : ℝ) ≠ 0 := by
    have : w.length ≠ 0 := fun h => hne (List.length_eq_zero_iff.1 h)
    exact_mod_cast this
  rw [centre_length, centre_real, sum_map_add_const]
  field_simp
  ring

theorem centre_reverse (w : List ℝ) (m : ℝ) : centre w.reverse m = (centre w m).reverse := by
  rw [centre_real, centre_real, List.sum_reverse, List.length_reverse, List.map_reverse]

theorem centre_map_add_const (w : List ℝ) (c m : ℝ) :
    centre (w.map (fun v => v + c)) m = centre w m := by
  by_cases hne : w = []
  · subst hne; rfl
  have hn : (w.length : ℝ) ≠ 0 := by
    have : w.length ≠ 0 := fun h => hne (List.length_eq_zero_iff.1 h)
    exact_mod_cast this
  rw [centre_real, centre_real, sum_map_add_const, List.length_map, List.map_map]
  apply List.map_congr_left
  intro v _
  show v + c + (m - (w.sum + (w.length : ℝ) * c) / (w.length : ℝ)) = v + (m - w.sum / (w.length : ℝ))
  field_simp
  ring

theorem cumulative_go_length (I : ℝ → ℝ → ℝ) (rest : List ℝ) (acc prev : ℝ) :
    (cumulative.go I acc prev rest).length = rest.length + 1 := by
  induction rest generalizing acc prev with
  | nil => rfl
  | cons g gs ih => rw [cumulative.go, List.length_cons, ih, List.length_cons]

theorem cumulative_length (I : ℝ → ℝ → ℝ) (grid : List ℝ) :
    (cumulative I grid).length = grid.length := by
  cases grid with
  | nil => rfl
  | cons g gs => rw [cumulative, cumulative_go_length, List.length_cons]

theorem additive_self (I : ℝ → ℝ → ℝ) (hI : ∀ a b c, I a b + I b c = I a c) (a : ℝ) : I a a = 0 := by
  have := hI a a a; linarith

theorem additive_swap (I : ℝ → ℝ → ℝ) (hI : ∀ a b c, I a b + I b c = I a c) (a b : ℝ) :
    I b a = - I a b := by
  have h1 := hI a b a
  have h2 := additive_self I hI a
  linarith

theorem cumulative_go_eq (I : ℝ → ℝ → ℝ) (hI : ∀ a b c, I a b + I b c = I a c)
    (rest : List ℝ) (acc prev : ℝ) :
    cumulative.go I acc prev rest = (prev :: rest).map (fun g => acc + I prev g) := by
  induction rest generalizing acc prev with
  | nil =>
    rw [cumulative.go, List.map_cons, List.map_nil, additive_self I hI, add_zero]
  | cons g gs ih =>
    rw [cumulative.go, ih, num_add, List.map_cons (a := prev), additive_self I hI, add_zero]
    congr 1
    apply List.map_congr_left
    intro x _
    show acc + I prev g + I g x = acc + I prev x
    rw [add_assoc, hI]

theorem cumulative_eq (I : ℝ → ℝ → ℝ) (hI : ∀ a b c, I a b + I b c = I a c) (g0 : ℝ) (gs : List ℝ) :
    cumulative I (g0 :: gs) = (g0 :: gs).map (fun g => I g0 g) := by
  rw [cumulative, cumulative_go_eq I hI]
  apply List.map_congr_left
  intro x _
  show ((Num.ofInt 0 : ℝ)) + I g0 x = I g0 x
  rw [num_ofInt, Int.cast_zero, zero_add]

/-- the centred curve does not depend on the base level of the cumulative integral -/
theorem riseCurve_eq_base (I : ℝ → ℝ → ℝ) (hI : ∀ a b c, I a b + I b c = I a c) (grid : List ℝ)
    (mean p : ℝ) : riseCurve I grid mean = centre (grid.map (fun g => I p g)) mean := by
  unfold riseCurve
  cases grid with
  | nil => rfl
  | cons g0 gs =>
    rw [cumulative_eq I hI, ← centre_map_add_const ((g0 :: gs).map (fun g => I p g)) (I g0 p) mean,
      List.map_map]
    congr 1
    apply List.map_congr_left
    intro x _
    show I g0 x = I p x + I g0 p
    rw [add_comm, hI]

/-- closed form: every entry is `I p g` plus one constant -/
theorem riseCurve_eq_map (I : ℝ → ℝ → ℝ) (hI : ∀ a b c, I a b + I b c = I a c) (grid : List ℝ)
    (mean p : ℝ) : ∃ c : ℝ, riseCurve I grid mean = grid.map (fun g => I p g + c) := by
  refine ⟨mean - (grid.map (fun g => I p g)).sum / ((grid.map (fun g => I p g)).length : ℝ), ?_⟩
  rw [riseCurve_eq_base I hI grid mean p, centre_real, List.map_map]
  rfl

theorem riseCurve_length (I : ℝ → ℝ → ℝ) (grid : List ℝ) (mean : ℝ) :
    (riseCurve I grid mean).length = grid.length := by
  unfold riseCurve; rw [centre_length, cumulative_length]

theorem riseCurve_mean (I : ℝ → ℝ → ℝ) (grid : List ℝ) (mean : ℝ) (hne : grid ≠ []) :
    (riseCurve I grid mean).sum / ((riseCurve I grid mean).length : ℝ) = mean := by
  unfold riseCurve
  apply centre_mean
  intro h
  have := cumulative_length I grid
  rw [h] at this
  exact hne (List.length_eq_zero_iff.1 this.symm)

theorem getD_of_lt {β : Type} (l : List β) (d : β) {n : Nat} (h : n < l.length) : l.getD n d = l[n] := by
  rw [List.getD_eq_getElem?_getD, List.getElem?_eq_getElem h, Option.getD_some]

theorem riseCurve_difference (I : ℝ → ℝ → ℝ) (hI : ∀ a b c, I a b + I b c = I a c) (grid : List ℝ)
    (mean : ℝ) (i j : Nat) (hi : i < grid.length) (hj : j < grid.length) :
    (riseCurve I grid mean).getD j 0 - (riseCurve I grid mean).getD i 0 =
      I (grid.getD i 0) (grid.getD j 0) := by
  obtain ⟨c, hc⟩ := riseCurve_eq_map I hI grid mean 0
  have hi' : i < (grid.map (fun g => I 0 g + c)).length := by rw [List.length_map]; exact hi
  have hj' : j < (grid.map (fun g => I 0 g + c)).length := by rw [List.length_map]; exact hj
  rw [hc, getD_of_lt _ _ hi', getD_of_lt _ _ hj', getD_of_lt _ _ hi,
    getD_of_lt _ _ hj, List.getElem_map, List.getElem_map]
  have := hI 0 grid[i] grid[j]
  linarith

theorem riseCurve_monotone (I : ℝ → ℝ → ℝ) (hI : ∀ a b c, I a b + I b c = I a c) (grid : List ℝ)
    (mean : ℝ) (hs : grid.Pairwise (· < ·)) :
    ((∀ a b, a ≤ b → 0 ≤ I a b) → (riseCurve I grid mean).Pairwise (· ≤ ·)) ∧
    ((∀ a b, a < b → I a b < 0) → (riseCurve I grid mean).Pairwise (· > ·)) := by
  obtain ⟨c, hc⟩ := riseCurve_eq_map I hI grid mean 0
  rw [hc, List.pairwise_map, List.pairwise_map]
  constructor
  · intro h
    refine hs.imp ?_
    intro a b hab
    have h1 := hI 0 a b
    have h2 := h a b hab.le
    show I 0 a + c ≤ I 0 b + c
    linarith
  · intro h
    refine hs.imp ?_
    intro a b hab
    have h1 := hI 0 a b
    have h2 := h a b hab
    show I 0 a + c > I 0 b + c
    linarith

theorem riseCurve_reverse (I : ℝ → ℝ → ℝ) (hI : ∀ a b c, I a b + I b c = I a c) (grid : List ℝ)
    (mean : ℝ) : riseCurve I grid.reverse mean = (riseCurve I grid mean).reverse := by
  rw [riseCurve_eq_base I hI grid.reverse mean 0, riseCurve_eq_base I hI grid mean 0,
    List.map_reverse, centre_reverse]

theorem tables_layout_real (levels measured simulated : List ℝ)
    (h1 : measured.length = levels.length) (h2 : simulated.length = levels.length) :
    (riseTable levels measured simulated).map (·.1) = levels ∧
    (riseTable levels measured simulated).map (·.2.2) = simulated ∧
    (recessionTable levels measured simulated).map (·.1) = levels.reverse ∧
    (recessionTable levels measured simulated).map (·.2.2) = recessionVector simulated := by
  have hz : (List.zip measured simulated).length = levels.length := by
    rw [List.length_zip, h1, h2, Nat.min_self]
  have e1 : (List.zip levels (List.zip measured simulated)).map (·.1) = levels :=
    List.map_fst_zip (le_of_eq hz.symm)
  have e2 : (List.zip levels (List.zip measured simulated)).map (·.2.2) = simulated := by
    have : (List.zip levels (List.zip measured simulated)).map (·.2.2)
        = ((List.zip levels (List.zip measured simulated)).map (·.2)).map (·.2) := by
      rw [List.map_map]; rfl
    rw [this, List.map_snd_zip (le_of_eq hz), List.map_snd_zip (le_of_eq (h2.trans h1.symm))]
  refine ⟨e1, e2, ?_, ?_⟩
  · unfold recessionTable; rw [List.map_reverse, e1]
  · unfold recessionTable recessionVector; rw [List.map_reverse, e2]


/-! ### C18: recession integrand, mean ET -/

theorem recessionIntegrand_real (sy T : ℝ → ℝ) (et kappa z : ℝ) :
    recessionIntegrand sy T et kappa z = sy z / (-et - kappa * T z) := by
  unfold recessionIntegrand
  simp only [num_div, num_sub, num_neg, num_mul]

theorem recessionIntegrand_neg (sy T : ℝ → ℝ) (et kappa z : ℝ) (hsy : 0 < sy z) (het : 0 ≤ et)
    (hk : 0 ≤ kappa) (hne : ¬ (et = 0 ∧ kappa = 0)) (hT : 0 < T z) :
    recessionIntegrand sy T et kappa z < 0 := by
  rw [recessionIntegrand_real]
  apply div_neg_of_pos_of_neg hsy
  have hkT : 0 ≤ kappa * T z := mul_nonneg hk hT.le
  by_cases h0 : et = 0
  · have hk0 : kappa ≠ 0 := fun h => hne ⟨h0, h⟩
    have hkpos : 0 < kappa := lt_of_le_of_ne hk (Ne.symm hk0)
    have : 0 < kappa * T z := mul_pos hkpos hT
    linarith
  · have : 0 < et := lt_of_le_of_ne het (Ne.symm h0)
    linarith

theorem integral_neg_of_neg (f : ℝ → ℝ) (hf : Continuous f) (hneg : ∀ x, f x < 0) (a b : ℝ)
    (hab : a < b) : (∫ x in a..b, f x) < 0 := by
  have hpos : 0 < ∫ x in a..b, -f x :=
    intervalIntegral_pos_of_pos_on (hf.neg.intervalIntegrable a b)
      (fun x _ => neg_pos.2 (hneg x)) hab
  rw [intervalIntegral.integral_neg] at hpos
  linarith

theorem zero_curvature_real (sy T : ℝ → ℝ) (et : ℝ) (het : 0 < et) (a b : ℝ) :
    (∫ x in a..b, recessionIntegrand sy T et 0 x) * et = - ∫ x in a..b, sy x := by
  have hfun : (fun x => recessionIntegrand sy T et 0 x) = fun x => (-(1 / et)) * sy x := by
    funext x
    rw [recessionIntegrand_real, zero_mul, sub_zero]
    field_simp
  rw [hfun, intervalIntegral.integral_const_mul]
  field_simp

theorem sum_map_const {β : Type} (l : List β) (f : β → ℝ) (c : ℝ) (h : ∀ x ∈ l, f x = c) :
    (l.map f).sum = (l.length : ℝ) * c := by
  induction l with
  | nil => simp
  | cons x xs ih =>
    rw [List.map_cons, List.sum_cons, ih (fun y hy => h y (List.mem_cons_of_mem _ hy)),
      h x List.mem_cons_self, List.length_cons, Nat.cast_succ]
    ring

theorem meanET_real (db : Loaded ℝ) (ivs : List (Int × Int)) :
    meanET db ivs =
      (ivs.flatMap (fun iv =>
        (db.et.filter (fun r => decide (iv.1 ≤ r.1) && decide (r.1 < iv.2))).map (·.2.2))).sum /
      ((ivs.flatMap (fun iv =>
        (db.et.filter (fun r => decide (iv.1 ≤ r.1) && decide (r.1 < iv.2))).map (·.2.2))).length : ℝ)
      * 24 := by
  unfold meanET
  simp only [num_mul, num_div, num_sum, num_ofInt, Int.cast_natCast]
  norm_num

theorem meanET_single_real (db : Loaded ℝ) (iv : Int × Int) :
    meanET db [iv] =
      ((db.et.filter (fun r => decide (iv.1 ≤ r.1) && decide (r.1 < iv.2))).map (·.2.2)).sum /
        ((db.et.filter (fun r => decide (iv.1 ≤ r.1) && decide (r.1 < iv.2))).length : ℝ) * 24 := by
  rw [meanET_real, List.flatMap_cons, List.flatMap_nil, List.append_nil, List.length_map]

theorem meanET_constant_real (db : Loaded ℝ) (ivs : List (Int × Int)) (c : ℝ)
    (hc : ∀ r ∈ db.et, r.2.2 = c)
    (hne : ∃ iv ∈ ivs, ∃ r ∈ db.et, iv.1 ≤ r.1 ∧ r.1 < iv.2) : meanET db ivs = c * 24 := by
  rw [meanET_real]
  set vals := ivs.flatMap (fun iv =>
        (db.et.filter (fun r => decide (iv.1 ≤ r.1) && decide (r.1 < iv.2))).map (·.2.2)) with hv
  have hall : ∀ v ∈ vals, v = c := by
    intro v hvm
    rw [hv, List.mem_flatMap] at hvm
    obtain ⟨iv, _, hm⟩ := hvm
    rw [List.mem_map] at hm
    obtain ⟨r, hr, rfl⟩ := hm
    exact hc r (List.mem_of_mem_filter hr)
  have hmem : c ∈ vals := by
    obtain ⟨iv, hiv, r, hr, h1, h2⟩ := hne
    rw [hv, List.mem_flatMap]
    refine ⟨iv, hiv, ?_⟩
    rw [List.mem_map]
    refine ⟨r, ?_, hc r hr⟩
    rw [List.mem_filter]
    refine ⟨hr, ?_⟩
    simp only [Bool.and_eq_true, decide_eq_true_eq]
    exact ⟨h1, h2⟩
  have hlen : (vals.length : ℝ) ≠ 0 := by
    have : vals.length ≠ 0 := fun h => by
      rw [List.length_eq_zero_iff] at h; rw [h] at hmem; exact List.not_mem_nil hmem
    exact_mod_cast this
  have hsum : vals.sum = (vals.length : ℝ) * c := by
    have := sum_map_const vals id c hall
    rwa [List.map_id] at this
  rw [hsum, mul_div_cancel_left₀ c hlen]

end Spowtd
