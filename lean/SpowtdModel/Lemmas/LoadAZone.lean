import SpowtdModel.Model.Zone
/-
  Helper lemmas for Props/C11.lean (zone arithmetic) and the order-preserving de-duplication fold
  shared by `offsetsOf` and `labelsOf`.
-/
namespace Spowtd

theorem mem_dedupFold {β : Type} [BEq β] [LawfulBEq β] (l init : List β) (x : β) :
    x ∈ l.foldl (fun acc o => if acc.contains o then acc else acc ++ [o]) init ↔ x ∈ init ∨ x ∈ l := by
  induction l generalizing init with
  | nil => simp
  | cons o os ih =>
    rw [List.foldl_cons, ih]
    by_cases hc : init.contains o = true
    · rw [if_pos hc]
      have ho : o ∈ init := List.contains_iff_mem.mp hc
      constructor
      · rintro (h | h)
        · exact Or.inl h
        · exact Or.inr (List.mem_cons_of_mem _ h)
      · rintro (h | h)
        · exact Or.inl h
        · rcases List.mem_cons.mp h with rfl | h'
          · exact Or.inl ho
          · exact Or.inr h'
    · rw [if_neg hc]
      simp only [List.mem_append, List.mem_cons, List.not_mem_nil, or_false]
      constructor
      · rintro ((h | h) | h)
        · exact Or.inl h
        · exact Or.inr (Or.inl h)
        · exact Or.inr (Or.inr h)
      · rintro (h | h | h)
        · exact Or.inl (Or.inl h)
        · exact Or.inl (Or.inr h)
        · exact Or.inr h

theorem foldl_offset_mem (u : Int) (ts : List (Int × Int)) (acc : Int) :
    ts.foldl (fun acc t => if t.1 ≤ u then t.2 else acc) acc = acc ∨
      ∃ t ∈ ts, t.2 = ts.foldl (fun acc t => if t.1 ≤ u then t.2 else acc) acc := by
  induction ts generalizing acc with
  | nil => exact Or.inl rfl
  | cons t ts ih =>
    rw [List.foldl_cons]
    rcases ih (if t.1 ≤ u then t.2 else acc) with h | ⟨t', ht', h⟩
    · rw [h]
      by_cases hc : t.1 ≤ u
      · rw [if_pos hc]; exact Or.inr ⟨t, List.mem_cons_self, rfl⟩
      · rw [if_neg hc]; exact Or.inl rfl
    · exact Or.inr ⟨t', List.mem_cons_of_mem _ ht', h⟩

theorem offsetAt_mem_offsetsOf (z : Zone) (u : Int) : offsetAt z u ∈ offsetsOf z := by
  unfold offsetsOf
  rw [mem_dedupFold]
  right
  rcases foldl_offset_mem u z.transitions z.initial with h | ⟨t, ht, h⟩
  · exact List.mem_cons.mpr (Or.inl h)
  · exact List.mem_cons_of_mem _ (List.mem_map.mpr ⟨t, ht, h⟩)

theorem mem_localize_iff (z : Zone) (l u : Int) :
    u ∈ localize z l ↔ ∃ o ∈ offsetsOf z, offsetAt z (l - o) = o ∧ u = l - o := by
  unfold localize
  rw [List.mem_filterMap]
  constructor
  · rintro ⟨o, ho, h⟩
    split at h
    · rename_i hc
      simp only [Option.some.injEq] at h
      exact ⟨o, ho, by simpa using hc, h.symm⟩
    · cases h
  · rintro ⟨o, ho, h1, h2⟩
    refine ⟨o, ho, ?_⟩
    rw [if_pos (by simpa using h1), h2]

end Spowtd
