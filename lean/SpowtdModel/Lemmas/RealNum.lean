import SpowtdModel.Model.Hydraulic
import Mathlib.Analysis.SpecialFunctions.Pow.Real
import Mathlib.Analysis.SpecialFunctions.Log.Basic
/-
  The carrier instances at `ℝ` used by the real-analysis theorems (C14–C18).  Noncomputable:
  comparisons are decided classically.  The model functions, written once over `Num α`, unfold
  at this instance to ordinary real expressions.
-/
namespace Spowtd
open Classical

noncomputable instance instNumReal : Num ℝ where
  add := (· + ·)
  sub := (· - ·)
  mul := (· * ·)
  div := (· / ·)
  neg := fun x => -x
  ofInt := fun i => (i : ℝ)
  lt := fun a b => decide (a < b)
  le := fun a b => decide (a ≤ b)
  beq := fun a b => decide (a = b)
  floor := fun x => ⌊x⌋
  ceil := fun x => ⌈x⌉

noncomputable instance instNumTReal : NumT ℝ where
  exp := Real.exp
  log := Real.log
  pow := fun x y => x ^ y

end Spowtd
