import SpowtdModel.Lemmas.LeastSquares
/- Helper lemmas for Props/C05, C06, C08. -/
namespace Spowtd
end Spowtd
