import SpowtdModel.Lemmas.LeastSquares
import SpowtdModel.Lemmas.LeastSquaresSums
import SpowtdModel.Lemmas.LeastSquaresExpand
import SpowtdModel.Lemmas.LeastSquaresSolve
import SpowtdModel.Lemmas.LeastSquaresComponents
/- Helper lemmas for Props/C05, C06, C08: see LeastSquaresSums (list sums, series list),
   LeastSquaresExpand (expansion of the objective, minimisers), LeastSquaresSolve (solver,
   single-series levels, planted curves, presentation order, axis shifts, re-origin),
   LeastSquaresComponents (merge loop). -/
namespace Spowtd
namespace LS

/-- `objective_expand` in the form stated in Props/C05 -/
theorem objective_expand_num (m : Mapping Rat) (x y : Nat → Rat) :
    objective m y = objective m x
      + 2 * Num.sum ((seriesOf m).map (fun s => (y s - x s) * residualSum m x s))
      + objective (m.map (fun hl => (hl.1, hl.2.map (fun st => (st.1, (0 : Rat))))))
          (fun s => y s - x s) := by
  rw [objective_zeroed, num_sum]
  exact objective_expand' m x y

theorem shares_symm (m : Mapping Rat) (s t : Nat) (h : Shares m s t) : Shares m t s := by
  obtain ⟨hl, hmem, hs, ht⟩ := h
  exact ⟨hl, hmem, ht, hs⟩

/-- it is enough to link every series to one hub -/
theorem connected_of_hub (m : Mapping Rat) (r : Nat)
    (h : ∀ s ∈ seriesOf m, Relation.ReflTransGen (Shares m) r s) : Connected m := by
  intro s hs t ht
  have hrev : ∀ a b, Relation.ReflTransGen (Shares m) a b → Relation.ReflTransGen (Shares m) b a := by
    intro a b hab
    induction hab with
    | refl => exact Relation.ReflTransGen.refl
    | tail _ hbc ih => exact (Relation.ReflTransGen.single (shares_symm m _ _ hbc)).trans ih
  exact (hrev r s (h s hs)).trans (h t ht)

end LS
end Spowtd
