import SpowtdModel.Lemmas.LeastSquaresExpand
/-
  Helper lemmas for Props/C05, C06, C08 (part 3): the checked solver, single-series levels,
  planted curves, presentation order, axis shifts, the re-origin step.
-/
namespace Spowtd
namespace LS

/-! ### the ascending insertion of `solveOffsets` -/

def insStep (acc : List Nat) (s : Nat) : List Nat :=
  if acc.any (fun t => decide (s < t)) then
    (acc.filter (fun t => decide (t < s))) ++ [s] ++ (acc.filter (fun t => decide (s < t)))
  else acc ++ [s]

theorem mem_insStep (acc : List Nat) (s x : Nat) : x ∈ insStep acc s ↔ x ∈ acc ∨ x = s := by
  unfold insStep
  split
  · simp only [List.mem_append, List.mem_filter, List.mem_singleton, decide_eq_true_eq]
    constructor
    · rintro ((⟨h, _⟩ | h) | ⟨h, _⟩)
      · exact Or.inl h
      · exact Or.inr h
      · exact Or.inl h
    · rintro (h | h)
      · rcases Nat.lt_trichotomy x s with h' | h' | h'
        · exact Or.inl (Or.inl ⟨h, h'⟩)
        · exact Or.inl (Or.inr h')
        · exact Or.inr ⟨h, h'⟩
      · exact Or.inl (Or.inr h)
  · simp only [List.mem_append, List.mem_singleton]

theorem nodup_insStep (acc : List Nat) (s : Nat) (h : acc.Nodup) (hs : s ∉ acc) :
    (insStep acc s).Nodup := by
  unfold insStep
  split
  · rw [List.nodup_append]
    refine ⟨?_, h.filter _, ?_⟩
    · rw [List.nodup_append]
      refine ⟨h.filter _, List.nodup_singleton s, ?_⟩
      intro a ha b hb
      rw [List.mem_singleton] at hb
      rw [List.mem_filter, decide_eq_true_eq] at ha
      omega
    · intro a ha b hb
      rw [List.mem_filter, decide_eq_true_eq] at hb
      rw [List.mem_append, List.mem_filter, decide_eq_true_eq, List.mem_singleton] at ha
      omega
  · rw [List.nodup_append]
    refine ⟨h, List.nodup_singleton s, ?_⟩
    intro a ha b hb
    rw [List.mem_singleton] at hb
    intro hab
    exact hs (hb ▸ hab ▸ ha)

theorem mem_insFold (L acc : List Nat) (x : Nat) :
    x ∈ L.foldl insStep acc ↔ x ∈ acc ∨ x ∈ L := by
  induction L generalizing acc with
  | nil => simp
  | cons s L ih =>
    simp only [List.foldl_cons, ih, mem_insStep, List.mem_cons]
    tauto

theorem nodup_insFold (L acc : List Nat) (hacc : acc.Nodup) (hL : L.Nodup)
    (hd : ∀ x ∈ L, x ∉ acc) : (L.foldl insStep acc).Nodup := by
  induction L generalizing acc with
  | nil => simpa using hacc
  | cons s L ih =>
    simp only [List.foldl_cons]
    have hs : s ∉ L := (List.nodup_cons.1 hL).1
    apply ih _ (nodup_insStep acc s hacc (hd s (List.mem_cons_self ..))) (List.nodup_cons.1 hL).2
    intro x hx hx'
    rcases (mem_insStep acc s x).1 hx' with h | h
    · exact hd x (List.mem_cons_of_mem _ hx) h
    · exact hs (h ▸ hx)

theorem lookup_pinned (unknowns : List Nat) (xs : List Rat) (ref : Nat) (h : ref ∉ unknowns) :
    lookup (List.zip unknowns xs ++ [(ref, (Num.ofInt 0 : Rat))]) ref = 0 := by
  unfold lookup
  have h1 : (List.zip unknowns xs).find? (fun p => p.1 == ref) = none := by
    rw [List.find?_eq_none]
    intro p hp hb
    have : p.1 = ref := by simpa using hb
    have hp' : (p.1, p.2) ∈ List.zip unknowns xs := hp
    exact h (this ▸ (List.of_mem_zip hp').1)
  rw [List.find?_append, h1]
  simp

theorem solveOffsets_ok (m : Mapping Rat) (sol : List (Nat × Rat))
    (h : solveOffsets m = .ok sol) :
    Stationary m (lookup sol) ∧ ∃ r ∈ seriesOf m, lookup sol r = 0 := by
  unfold solveOffsets at h
  dsimp only at h
  generalize hI : List.foldl _ [] (seriesOf m) = ids at h
  have hI' : (seriesOf m).foldl insStep [] = ids := hI
  have hmem : ∀ x, x ∈ ids ↔ x ∈ seriesOf m := by
    intro x; rw [← hI', mem_insFold]; simp
  have hnd : ids.Nodup := by
    rw [← hI']
    exact nodup_insFold _ _ List.nodup_nil (nodup_seriesOf m) (fun _ _ h => by cases h)
  clear hI hI'
  cases hlast : ids.getLast? with
  | none => rw [hlast] at h; cases h
  | some ref =>
    rw [hlast] at h
    dsimp only at h
    cases hgj : gaussJordan ids.dropLast.length [] (ids.dropLast.map (equationOf m ids.dropLast)) with
    | none => rw [hgj] at h; cases h
    | some xs =>
      rw [hgj] at h
      dsimp only at h
      split at h
      · rename_i hall
        injection h with h
        subst h
        have hsplit : ids.dropLast ++ [ref] = ids :=
          List.dropLast_append_getLast? ref (by rw [hlast]; rfl)
        have href : ref ∈ ids := by rw [← hsplit]; simp
        have hnot : ref ∉ ids.dropLast := by
          rw [← hsplit, List.nodup_append] at hnd
          intro hin
          exact hnd.2.2 ref hin ref (List.mem_singleton.2 rfl) rfl
        refine ⟨?_, ref, (hmem ref).1 href, lookup_pinned _ _ _ hnot⟩
        intro s
        by_cases hs : s ∈ seriesOf m
        · have := List.all_eq_true.1 hall s ((hmem s).2 hs)
          exact (isZero_iff _).1 this
        · exact residualSum_not_mem m _ s hs
      · cases h

/-! ### single-series levels -/

theorem levelMean_single (x : Nat → Rat) (a : Nat × Rat) : levelMean x [a] = x a.1 + a.2 := by
  rw [levelMean_eq]; simp

theorem short_level (x : Nat → Rat) (l : List (Nat × Rat)) (h : decide (2 ≤ l.length) = false) :
    lobj x l = 0 ∧ ∀ s, lres x l s = 0 := by
  match l, h with
  | [], _ => exact ⟨rfl, fun _ => rfl⟩
  | [a], _ =>
    constructor
    · unfold lobj; rw [levelMean_single]; simp
    · intro s
      unfold lres
      rw [levelMean_single]
      by_cases hb : (a.1 == s) = true
      · rw [List.filter_cons_of_pos (p := fun st : Nat × Rat => st.1 == s) hb]; simp
      · rw [List.filter_cons_of_neg (p := fun st : Nat × Rat => st.1 == s) hb]; simp
  | _ :: _ :: _, h => simp at h

theorem singletons (m : Mapping Rat) (x : Nat → Rat) (s : Nat) :
    residualSum (dropSingletons m) x s = residualSum m x s ∧
    objective (dropSingletons m) x = objective m x := by
  rw [residualSum_eq, residualSum_eq, objective_eq, objective_eq]
  unfold dropSingletons
  constructor
  · apply sum_filter_of_zero
    intro hl _ hp
    exact (short_level x hl.2 hp).2 s
  · apply sum_filter_of_zero
    intro hl _ hp
    exact (short_level x hl.2 hp).1

/-! ### planted curves -/

theorem levelMean_const (x : Nat → Rat) (l : List (Nat × Rat)) (v : Rat)
    (h : ∀ st ∈ l, x st.1 + st.2 = v) (hne : l ≠ []) : levelMean x l = v := by
  rw [levelMean_eq, List.map_congr_left h, sum_map_const]
  have hn : (l.length : Rat) ≠ 0 := by
    have : l.length ≠ 0 := fun h' => hne (List.length_eq_zero_iff.1 h')
    exact_mod_cast this
  field_simp

theorem level_const (x : Nat → Rat) (l : List (Nat × Rat)) (v : Rat)
    (h : ∀ st ∈ l, x st.1 + st.2 = v) (hne : l ≠ []) : lobj x l = 0 ∧ ∀ s, lres x l s = 0 := by
  have hm := levelMean_const x l v h hne
  constructor
  · unfold lobj
    rw [hm]
    refine (sum_map_congr _ _ (fun _ => (0 : Rat)) ?_).trans (sum_map_zero _)
    intro st hst
    rw [h st hst]; ring
  · intro s
    unfold lres
    rw [hm]
    refine (sum_map_congr _ _ (fun _ => (0 : Rat)) ?_).trans (sum_map_zero _)
    intro st hst
    rw [h st (List.mem_filter.1 hst).1]; ring

theorem planted_stationary (m : Mapping Rat) (hm : ProperMapping m) (T : Int → Rat) (c : Nat → Rat)
    (hp : ∀ hl ∈ m, ∀ st ∈ hl.2, st.2 = T hl.1 + c st.1) :
    Stationary m (fun s => - c s) ∧ objective m (fun s => - c s) = 0 := by
  have key : ∀ hl ∈ m, lobj (fun s => - c s) hl.2 = 0 ∧ ∀ s, lres (fun s => - c s) hl.2 s = 0 := by
    intro hl hmem
    apply level_const _ _ (T hl.1) _ (hm hl hmem).1
    intro st hst
    rw [hp hl hmem st hst]; ring
  constructor
  · intro s
    rw [residualSum_eq]
    refine (sum_map_congr _ _ (fun _ => (0 : Rat)) ?_).trans (sum_map_zero _)
    intro hl hmem
    exact (key hl hmem).2 s
  · rw [objective_eq]
    refine (sum_map_congr _ _ (fun _ => (0 : Rat)) ?_).trans (sum_map_zero _)
    intro hl hmem
    exact (key hl hmem).1

theorem planted_rec (m : Mapping Rat) (hm : ProperMapping m) (hc : Connected m)
    (T : Int → Rat) (c : Nat → Rat)
    (hp : ∀ hl ∈ m, ∀ st ∈ hl.2, st.2 = T hl.1 + c st.1)
    (x : Nat → Rat) (hx : Stationary m x) :
    ∃ κ, (∀ hl ∈ m, ∀ st ∈ hl.2, x st.1 + st.2 = T hl.1 + κ) ∧
         (∀ hl ∈ m, levelMean x hl.2 = T hl.1 + κ) := by
  obtain ⟨κ, hκ⟩ := unique_mod_shift m hc (fun s => - c s) x (planted_stationary m hm T c hp).1 hx
  have h1 : ∀ hl ∈ m, ∀ st ∈ hl.2, x st.1 + st.2 = T hl.1 + κ := by
    intro hl hmem st hst
    rw [hκ st.1 (mem_seriesOf_of_mem m hl hmem st hst), hp hl hmem st hst]; ring
  exact ⟨κ, h1, fun hl hmem => levelMean_const x hl.2 _ (h1 hl hmem) (hm hl hmem).1⟩

theorem rise_depth (step sy z0 z1 : Rat) (hs : 0 < step) (hz : z0 < z1) (k : Int) (x : Rat)
    (h : (k, x) ∈ crossings step [((0 : Rat), z0), (sy * (z1 - z0), z1)]) :
    x = sy * ((k : Rat) * step - z0) := by
  simp only [crossings, crossingsPair, List.append_nil, List.mem_map, Prod.mk.injEq,
    num_add, num_sub, num_mul, num_div, num_ofInt] at h
  obtain ⟨k', _, hk, hx⟩ := h
  subst hk
  rw [← hx]
  have h1 : step ≠ 0 := ne_of_gt hs
  have h2 : z1 - z0 ≠ 0 := by linarith
  have h3 : z1 / step - z0 / step = (z1 - z0) / step := by ring
  rw [h3]
  field_simp
  ring

/-! ### presentation order -/

theorem levelMean_perm (x : Nat → Rat) (l l' : List (Nat × Rat)) (h : l.Perm l') :
    levelMean x l = levelMean x l' := by
  rw [levelMean_eq, levelMean_eq, (h.map _).sum_eq, h.length_eq]

theorem lobj_perm (x : Nat → Rat) (l l' : List (Nat × Rat)) (h : l.Perm l') :
    lobj x l = lobj x l' := by
  unfold lobj
  rw [levelMean_perm x l l' h, (h.map _).sum_eq]

theorem lres_perm (x : Nat → Rat) (l l' : List (Nat × Rat)) (h : l.Perm l') (s : Nat) :
    lres x l s = lres x l' s := by
  unfold lres
  rw [levelMean_perm x l l' h, ((h.filter _).map _).sum_eq]

theorem perm_within (m m' : Mapping Rat) (x : Nat → Rat)
    (h : List.Forall₂ (fun hl hl' => hl.1 = hl'.1 ∧ hl.2.Perm hl'.2) m m') :
    objective m x = objective m' x ∧ ∀ s, residualSum m x s = residualSum m' x s := by
  induction h with
  | nil => exact ⟨rfl, fun _ => rfl⟩
  | @cons a b l l' h1 _ ih =>
    constructor
    · have := ih.1
      rw [objective_eq, objective_eq] at this ⊢
      rw [List.map_cons, List.map_cons, List.sum_cons, List.sum_cons, this,
        lobj_perm x a.2 b.2 h1.2]
    · intro s
      have := ih.2 s
      rw [residualSum_eq, residualSum_eq] at this ⊢
      rw [List.map_cons, List.map_cons, List.sum_cons, List.sum_cons, this,
        lres_perm x a.2 b.2 h1.2 s]

theorem perm_levels (m m' : Mapping Rat) (x : Nat → Rat) (h : m.Perm m') :
    objective m x = objective m' x ∧ ∀ s, residualSum m x s = residualSum m' x s := by
  constructor
  · rw [objective_eq, objective_eq, (h.map _).sum_eq]
  · intro s
    rw [residualSum_eq, residualSum_eq, (h.map _).sum_eq]

/-! ### axis shifts -/

def shiftL (c : Nat → Rat) (l : List (Nat × Rat)) : List (Nat × Rat) :=
  l.map (fun st => (st.1, st.2 + c st.1))

theorem levelMean_shift (c x : Nat → Rat) (l : List (Nat × Rat)) :
    levelMean (fun s => x s - c s) (shiftL c l) = levelMean x l := by
  rw [levelMean_eq, levelMean_eq]
  unfold shiftL
  rw [List.map_map, List.length_map]
  congr 2
  apply List.map_congr_left
  intro st _
  simp only [Function.comp_def]; ring

theorem lobj_shift (c x : Nat → Rat) (l : List (Nat × Rat)) :
    lobj (fun s => x s - c s) (shiftL c l) = lobj x l := by
  unfold lobj
  rw [levelMean_shift]
  unfold shiftL
  rw [List.map_map]
  apply sum_map_congr
  intro st _
  simp only [Function.comp_def]; ring

theorem lres_shift (c x : Nat → Rat) (l : List (Nat × Rat)) (s : Nat) :
    lres (fun s => x s - c s) (shiftL c l) s = lres x l s := by
  unfold lres
  rw [levelMean_shift]
  unfold shiftL
  rw [List.filter_map, List.map_map]
  apply sum_map_congr
  intro st _
  simp only [Function.comp_def]; ring

theorem axis_shift (m : Mapping Rat) (c x : Nat → Rat) :
    (∀ s, residualSum (shiftAxes m c) (fun s => x s - c s) s = residualSum m x s) ∧
    objective (shiftAxes m c) (fun s => x s - c s) = objective m x := by
  have hsm : shiftAxes m c = m.map (fun hl => (hl.1, shiftL c hl.2)) := rfl
  constructor
  · intro s
    rw [residualSum_eq, residualSum_eq, hsm, List.map_map]
    apply sum_map_congr
    intro hl _
    exact lres_shift c x hl.2 s
  · rw [objective_eq, objective_eq, hsm, List.map_map]
    apply sum_map_congr
    intro hl _
    exact lobj_shift c x hl.2

/-! ### the re-origin step -/

theorem lookup_map_add (offs : List (Nat × Rat)) (κ : Rat) (s : Nat)
    (h : ∃ v, (s, v) ∈ offs) :
    lookup (offs.map (fun p => (p.1, p.2 + κ))) s = lookup offs s + κ := by
  induction offs with
  | nil => obtain ⟨v, hv⟩ := h; cases hv
  | cons p offs ih =>
    by_cases hp : (p.1 == s) = true
    · simp only [lookup, List.map_cons, List.find?_cons, hp, Option.map_some, Option.getD_some]
    · have hrest : ∃ v, (s, v) ∈ offs := by
        obtain ⟨v, hv⟩ := h
        rcases List.mem_cons.1 hv with h' | h'
        · exfalso; apply hp; rw [← h']; simp
        · exact ⟨v, h'⟩
      have := ih hrest
      have hp' : (p.1 == s) = false := Bool.eq_false_iff.2 hp
      unfold lookup at this
      simp only [lookup, List.map_cons, List.find?_cons, hp']
      exact this

def reoriginAt (a : Aligned Rat) (k : Int) : Except OffErr (Aligned Rat) :=
  match a.mapping.find? (fun hl => hl.1 == k) with
  | none => .error .refOutside
  | some hl =>
    .ok { a with offsets := a.offsets.map (fun p => (p.1, Num.sub p.2
            (mean (hl.2.map (fun st => Num.add (lookup a.offsets st.1) st.2))))) }

theorem reorigin_eq (a : Aligned Rat) (ref : Option Int) :
    reorigin a ref = match ref with
      | some k => reoriginAt a k
      | none => match maxLevel a.mapping with
        | none => .error .refOutside
        | some k => reoriginAt a k := by
  cases ref with
  | some k =>
    unfold reorigin reoriginAt
    dsimp only
    cases List.find? (fun hl => hl.1 == k) a.mapping <;> rfl
  | none =>
    unfold reorigin
    dsimp only
    cases maxLevel a.mapping with
    | none => rfl
    | some k =>
      unfold reoriginAt
      dsimp only
      cases List.find? (fun hl => hl.1 == k) a.mapping <;> rfl

theorem reorigin_shift (a : Aligned Rat) (κ : Rat) (ref : Option Int)
    (hcov : ∀ hl ∈ a.mapping, hl.2 ≠ [] ∧ ∀ st ∈ hl.2, ∃ v, (st.1, v) ∈ a.offsets) :
    reorigin { a with offsets := a.offsets.map (fun p => (p.1, p.2 + κ)) } ref = reorigin a ref := by
  have key : ∀ k, reoriginAt { a with offsets := a.offsets.map (fun p => (p.1, p.2 + κ)) } k
      = reoriginAt a k := by
    intro k
    unfold reoriginAt
    dsimp only
    cases hf : a.mapping.find? (fun hl => hl.1 == k) with
    | none => rfl
    | some hl =>
      dsimp only
      have hmem : hl ∈ a.mapping := List.mem_of_find?_eq_some hf
      obtain ⟨hne, hc⟩ := hcov hl hmem
      have hn : (hl.2.length : Rat) ≠ 0 := by
        have : hl.2.length ≠ 0 := fun h' => hne (List.length_eq_zero_iff.1 h')
        exact_mod_cast this
      have hz : mean (hl.2.map (fun st => Num.add
            (lookup (a.offsets.map (fun p => (p.1, p.2 + κ))) st.1) st.2))
          = mean (hl.2.map (fun st => Num.add (lookup a.offsets st.1) st.2)) + κ := by
        rw [mean_eq, mean_eq, List.length_map, List.length_map]
        have : ∀ st ∈ hl.2, Num.add (lookup (a.offsets.map (fun p => (p.1, p.2 + κ))) st.1) st.2
            = Num.add (lookup a.offsets st.1) st.2 + κ := by
          intro st hst
          rw [num_add, num_add, lookup_map_add _ _ _ (hc st hst)]; ring
        rw [List.map_congr_left this, sum_map_add', sum_map_const]
        field_simp
      rw [hz, List.map_map]
      congr 2
      apply List.map_congr_left
      intro p _
      simp only [Function.comp_def, num_sub]
      congr 1
      ring
  rw [reorigin_eq, reorigin_eq]
  cases ref with
  | some k => exact key k
  | none =>
    dsimp only
    cases maxLevel a.mapping with
    | none => rfl
    | some k => exact key k

theorem master_unique (m : Mapping Rat) (hm : ProperMapping m) (hc : Connected m)
    (ids : List Nat) (hids : ∀ s, s ∈ ids ↔ s ∈ seriesOf m)
    (x y : Nat → Rat) (hx : Stationary m x) (hy : Stationary m y) (ref : Option Int) :
    reorigin { offsets := ids.map (fun s => (s, y s)), mapping := m } ref =
    reorigin { offsets := ids.map (fun s => (s, x s)), mapping := m } ref := by
  obtain ⟨c, hc⟩ := unique_mod_shift m hc x y hx hy
  have h1 : ids.map (fun s => (s, y s))
      = (ids.map (fun s => (s, x s))).map (fun p => (p.1, p.2 + c)) := by
    rw [List.map_map]
    apply List.map_congr_left
    intro s hs
    simp only [Function.comp_def]
    rw [hc s ((hids s).1 hs)]
  rw [h1]
  apply reorigin_shift { offsets := ids.map (fun s => (s, x s)), mapping := m } c ref
  intro hl hmem
  refine ⟨(hm hl hmem).1, ?_⟩
  intro st hst
  refine ⟨x st.1, ?_⟩
  apply List.mem_map.2
  exact ⟨st.1, (hids st.1).2 (mem_seriesOf_of_mem m hl hmem st hst), rfl⟩

end LS
end Spowtd
