import SpowtdModel.Lemmas.SolveTotal
import SpowtdModel.Lemmas.ComponentsConnected
import SpowtdModel.Lemmas.Regrid
import Mathlib.Logic.Relation
/-
  Helper lemmas for Props/C08Total: `alignSeries` never fails for a numerical reason.  The head
  mapping of any list of series is proper and has distinct level ids; its main group is connected;
  dropping the single-series levels keeps it connected; on a non-empty proper connected mapping the
  solver is complete (`solveOffsets_total`).
-/
namespace Spowtd

/- decidable equality of alignment results, so that concrete instances of `alignSeries` can be
    evaluated with `decide` (used by the examples of Props/C08Total) -/
deriving instance DecidableEq for Aligned

namespace LS

/-! ### the head mapping: distinct level ids, proper -/

theorem headMapping_eq (step : Rat) (L : List (List (Rat × Rat))) :
    headMapping step L =
      ((L.zipIdx.map (fun p => (p.2, meanCrossings step p.1))).foldl
          (fun acc p => p.2.foldl levelStep acc) []).map
        (fun k => (k, (L.zipIdx.map (fun p => (p.2, meanCrossings step p.1))).filterMap
          (fun p => (p.2.find? (fun c => c.1 == k)).map (fun c => (p.1, c.2))))) := rfl

theorem nodup_perFold (per : List (Nat × List (Int × Rat))) (acc : List Int) (h : acc.Nodup) :
    (per.foldl (fun acc p => p.2.foldl levelStep acc) acc).Nodup := by
  induction per generalizing acc with
  | nil => exact h
  | cons p per ih =>
    rw [List.foldl_cons]
    exact ih _ (nodup_foldl_levelStep p.2 acc h)

theorem mem_perFold (per : List (Nat × List (Int × Rat))) (acc : List Int) (k : Int) :
    k ∈ per.foldl (fun acc p => p.2.foldl levelStep acc) acc ↔
      k ∈ acc ∨ ∃ p ∈ per, ∃ x, (k, x) ∈ p.2 := by
  induction per generalizing acc with
  | nil => simp
  | cons p per ih =>
    rw [List.foldl_cons, ih, mem_foldl_levelStep]
    simp only [List.mem_cons, exists_eq_or_imp]
    tauto

theorem headMapping_levels_nodup (step : Rat) (L : List (List (Rat × Rat))) :
    ((headMapping step L).map (·.1)).Nodup := by
  rw [headMapping_eq, List.map_map]
  have : ∀ l : List Int, l.map ((fun x : Int × List (Nat × Rat) => x.1) ∘ (fun k => (k,
      (L.zipIdx.map (fun p => (p.2, meanCrossings step p.1))).filterMap
        (fun p => (p.2.find? (fun c => c.1 == k)).map (fun c => (p.1, c.2)))))) = l :=
    fun l => List.map_id' l
  rw [this]
  exact nodup_perFold _ [] List.nodup_nil

theorem filterMap_fst_sublist {β γ : Type} (l : List (Nat × β)) (g : Nat × β → Option γ)
    (h : γ → Rat) :
    ((l.filterMap (fun p => (g p).map (fun c => (p.1, h c)))).map (·.1)).Sublist (l.map (·.1)) := by
  induction l with
  | nil => simp
  | cons p l ih =>
    cases hg : g p with
    | none =>
      rw [List.filterMap_cons_none (by simp [hg]), List.map_cons]
      exact ih.cons _
    | some c =>
      rw [List.filterMap_cons_some (b := (p.1, h c)) (by simp [hg]), List.map_cons, List.map_cons]
      exact ih.cons_cons _

theorem per_fst_nodup (step : Rat) (L : List (List (Rat × Rat))) :
    ((L.zipIdx.map (fun p => (p.2, meanCrossings step p.1))).map (·.1)).Nodup := by
  rw [List.map_map]
  have : ((fun x : Nat × List (Int × Rat) => x.1) ∘
      (fun p : List (Rat × Rat) × Nat => (p.2, meanCrossings step p.1))) = Prod.snd := rfl
  rw [this, List.zipIdx_map_snd]
  exact List.nodup_range'

theorem headMapping_proper (step : Rat) (L : List (List (Rat × Rat))) :
    ProperMapping (headMapping step L) := by
  intro hl hmem
  rw [headMapping_eq] at hmem
  obtain ⟨k, hk, rfl⟩ := List.mem_map.1 hmem
  rw [mem_perFold] at hk
  constructor
  · rcases hk with hk | ⟨p, hp, x, hx⟩
    · cases hk
    · have hsome : (p.2.find? (fun c => c.1 == k)).isSome := by
        rw [List.find?_isSome]
        exact ⟨(k, x), hx, by simp⟩
      obtain ⟨c, hc⟩ := Option.isSome_iff_exists.1 hsome
      intro h0
      have hin : (p.1, c.2) ∈ (L.zipIdx.map (fun p => (p.2, meanCrossings step p.1))).filterMap
          (fun p => (p.2.find? (fun c => c.1 == k)).map (fun c => (p.1, c.2))) :=
        List.mem_filterMap.2 ⟨p, hp, by simp [hc]⟩
      dsimp only at h0
      rw [h0] at hin
      cases hin
  · unfold seriesAt
    exact (filterMap_fst_sublist _ (fun p => p.2.find? (fun c => c.1 == k)) (fun c => c.2)).nodup
      (per_fst_nodup step L)

/-! ### filters keep a mapping proper -/

theorem proper_filter (m : Mapping Rat) (p : Int × List (Nat × Rat) → Bool) (h : ProperMapping m) :
    ProperMapping (m.filter p) :=
  fun hl hmem => h hl (List.mem_of_mem_filter hmem)

theorem proper_restrictTo (m : Mapping Rat) (L : List Int) (h : ProperMapping m) :
    ProperMapping (restrictTo m L) := proper_filter m _ h

theorem proper_dropSingletons (m : Mapping Rat) (h : ProperMapping m) :
    ProperMapping (dropSingletons m) := proper_filter m _ h

/-! ### dropping the single-series levels keeps the mapping connected -/

theorem mem_dropSingletons (m : Mapping Rat) (hl : Int × List (Nat × Rat)) :
    hl ∈ dropSingletons m ↔ hl ∈ m ∧ 2 ≤ hl.2.length := by
  unfold dropSingletons
  simp only [List.mem_filter, decide_eq_true_eq]

theorem two_le_of_mem_ne (l : List (Nat × Rat)) (u v : Nat) (hu : u ∈ seriesAt l)
    (hv : v ∈ seriesAt l) (hne : u ≠ v) : 2 ≤ l.length := by
  unfold seriesAt at hu hv
  match l, hu, hv with
  | [], hu, _ => cases hu
  | [a], hu, hv =>
    simp only [List.map_cons, List.map_nil, List.mem_singleton] at hu hv
    exact absurd (hu.trans hv.symm) hne
  | _ :: _ :: _, _, _ => simp

theorem shares_drop (m : Mapping Rat) (u v : Nat) (h : Shares m u v) :
    u = v ∨ Shares (dropSingletons m) u v := by
  by_cases he : u = v
  · exact Or.inl he
  · obtain ⟨hl, hmem, hu, hv⟩ := h
    exact Or.inr ⟨hl, (mem_dropSingletons m hl).2 ⟨hmem, two_le_of_mem_ne _ u v hu hv he⟩, hu, hv⟩

theorem chain_drop (m : Mapping Rat) (s t : Nat) (h : Relation.ReflTransGen (Shares m) s t) :
    Relation.ReflTransGen (Shares (dropSingletons m)) s t := by
  induction h with
  | refl => exact Relation.ReflTransGen.refl
  | tail _ hbc ih =>
    rcases shares_drop m _ _ hbc with he | hs
    · exact he ▸ ih
    · exact ih.tail hs

theorem connected_dropSingletons (m : Mapping Rat) (hc : Connected m) :
    Connected (dropSingletons m) := by
  have sub : ∀ x, x ∈ seriesOf (dropSingletons m) → x ∈ seriesOf m := by
    intro x hx
    rw [mem_seriesOf] at hx ⊢
    obtain ⟨hl, hmem, hx⟩ := hx
    exact ⟨hl, ((mem_dropSingletons m hl).1 hmem).1, hx⟩
  intro s hs t ht
  exact chain_drop m s t (hc s (sub s hs) t (sub t ht))

/-! ### the solver on the kept mapping -/

theorem solveOffsets_nil : solveOffsets ([] : Mapping Rat) = .error .empty := rfl

theorem main_connected (m : Mapping Rat) (hm : ProperMapping m) (hnd : (m.map (·.1)).Nodup)
    (hne : m ≠ []) : Connected (restrictTo m (mainComponent m)) := by
  obtain ⟨g, hg, he, _, _⟩ := mainComponent_spec m hnd hne
  rw [he]
  exact components_connected m hm hnd g hg

/-- on the kept part of a proper mapping with distinct level ids the solver either has nothing to
    align or succeeds -/
theorem kept_cases (m : Mapping Rat) (hm : ProperMapping m) (hnd : (m.map (·.1)).Nodup) :
    (dropSingletons (restrictTo m (mainComponent m)) = [] ∧
      solveOffsets (dropSingletons (restrictTo m (mainComponent m))) = .error .empty) ∨
    (dropSingletons (restrictTo m (mainComponent m)) ≠ [] ∧
      ∃ sol, solveOffsets (dropSingletons (restrictTo m (mainComponent m))) = .ok sol) := by
  by_cases hk : dropSingletons (restrictTo m (mainComponent m)) = []
  · left
    refine ⟨hk, ?_⟩
    rw [hk]
    exact solveOffsets_nil
  · right
    refine ⟨hk, ?_⟩
    have hne : m ≠ [] := by
      intro h0
      apply hk
      rw [h0]
      rfl
    exact solveOffsets_total _ (proper_dropSingletons _ (proper_restrictTo _ _ hm)) hk
      (connected_dropSingletons _ (main_connected m hm hnd hne))

/-! ### the alignment as a whole -/

theorem alignSeries_total (step : Rat) (series : List (List (Rat × Rat))) :
    (∃ a, alignSeries step series = .ok a) ∨ alignSeries step series = .error .empty ∨
      alignSeries step series = .error .oneSeries := by
  unfold alignSeries
  split
  · exact Or.inr (Or.inl rfl)
  · dsimp only
    rcases kept_cases _ (headMapping_proper step ((sortByFirst (series.zipIdx.map
        (fun p => (p.2, rebase p.1)))).map (·.2))) (headMapping_levels_nodup step _) with
      ⟨_, he⟩ | ⟨_, sol, hs⟩
    · right; right
      split
      · rename_i e heq
        rw [he] at heq
        injection heq with heq
        subst heq
        rfl
      · rename_i sol heq
        rw [he] at heq
        cases heq
    · left
      split
      · rename_i e heq
        rw [hs] at heq
        cases heq
      · exact ⟨_, rfl⟩

theorem alignSeries_oneSeries_iff (step : Rat) (series : List (List (Rat × Rat)))
    (hne : series ≠ []) :
    alignSeries step series = .error .oneSeries ↔
      let hm := headMapping step
        ((sortByFirst (series.zipIdx.map (fun p => (p.2, rebase p.1)))).map (·.2))
      dropSingletons (restrictTo hm (mainComponent hm)) = [] := by
  have hemp : series.isEmpty = false := by
    cases series with
    | nil => exact absurd rfl hne
    | cons _ _ => rfl
  unfold alignSeries
  rw [if_neg (by simp [hemp])]
  dsimp only
  rcases kept_cases _ (headMapping_proper step ((sortByFirst (series.zipIdx.map
      (fun p => (p.2, rebase p.1)))).map (·.2))) (headMapping_levels_nodup step _) with
    ⟨hk, he⟩ | ⟨hk, sol, hs⟩
  · refine ⟨fun _ => hk, fun _ => ?_⟩
    split
    · rename_i e heq
      rw [he] at heq
      injection heq with heq
      subst heq
      rfl
    · rename_i sol heq
      rw [he] at heq
      cases heq
  · refine ⟨fun h => ?_, fun h => absurd h hk⟩
    exfalso
    split at h
    · rename_i e heq
      rw [hs] at heq
      cases heq
    · cases h

end LS
end Spowtd
