import SpowtdModel.Lemmas.LeastSquaresSums
import Mathlib.Algebra.BigOperators.Group.Finset.Basic
import Mathlib.Algebra.BigOperators.Ring.Finset
import Mathlib.Algebra.BigOperators.Field
import Mathlib.Tactic.LinearCombination
/-
  Completeness of the model's Gauss–Jordan elimination (`gaussJordan` of Model/Offsets.lean) over
  `Rat`: on a square system whose homogeneous part has only the zero solution, every column gets
  a pivot and the returned column solves every row.
-/
namespace Spowtd
namespace GJ
open LS

abbrev Row := List Rat × Rat

/-- `Σ_{j<N} a[j] · x j` -/
def dot (N : Nat) (a : List Rat) (x : Nat → Rat) : Rat :=
  ∑ j ∈ Finset.range N, a.getD j 0 * x j

/-- row `r` holds at `x`, with the right-hand side scaled by `c` (`c = 0`: homogeneous) -/
def Sat (N : Nat) (c : Rat) (x : Nat → Rat) (r : Row) : Prop := dot N r.1 x = c * r.2

def pivotNorm (col : Nat) (p : Row) : Row :=
  (p.1.map (fun a => a / p.1.getD col 0), p.2 / p.1.getD col 0)

def elimBy (col : Nat) (pn r : Row) : Row :=
  (List.zipWith (fun a b => a - r.1.getD col 0 * b) r.1 pn.1, r.2 - r.1.getD col 0 * pn.2)

theorem gaussJordan_zero (done todo : List Row) :
    gaussJordan 0 done todo = some (done.reverse.map (·.2)) := rfl

theorem gaussJordan_succ (n : Nat) (done todo : List Row) :
    gaussJordan (n + 1) done todo =
      match todo.findIdx? (fun r => !isZero (r.1.getD done.length 0)) with
      | none => none
      | some i =>
        gaussJordan n
          (pivotNorm done.length (todo.getD i ([], 0)) ::
            done.map (elimBy done.length (pivotNorm done.length (todo.getD i ([], 0)))))
          ((todo.eraseIdx i).map (elimBy done.length (pivotNorm done.length (todo.getD i ([], 0))))) :=
  rfl

/-! ### entries -/

theorem getD_lt {β : Type} (l : List β) (d : β) (k : Nat) (hk : k < l.length) : l.getD k d = l[k] := by
  simp [List.getD_eq_getElem?_getD, hk]

theorem getD_map0 (f : Rat → Rat) (hf : f 0 = 0) (l : List Rat) (j : Nat) :
    (l.map f).getD j 0 = f (l.getD j 0) := by
  simp only [List.getD_eq_getElem?_getD, List.getElem?_map]
  cases l[j]? <;> simp [hf]

theorem getD_zipWith0 (g : Rat → Rat → Rat) (hg : g 0 0 = 0) (a b : List Rat)
    (h : a.length = b.length) (j : Nat) :
    (List.zipWith g a b).getD j 0 = g (a.getD j 0) (b.getD j 0) := by
  simp only [List.getD_eq_getElem?_getD, List.getElem?_zipWith]
  by_cases hj : j < a.length
  · have hj' : j < b.length := h ▸ hj
    simp [List.getElem?_eq_getElem hj, List.getElem?_eq_getElem hj']
  · have hj' : ¬ j < b.length := h ▸ hj
    simp [List.getElem?_eq_none (Nat.le_of_not_lt hj), List.getElem?_eq_none (Nat.le_of_not_lt hj'), hg]

theorem pivotNorm_getD (col : Nat) (p : Row) (j : Nat) :
    (pivotNorm col p).1.getD j 0 = p.1.getD j 0 / p.1.getD col 0 := by
  unfold pivotNorm
  exact getD_map0 (fun a => a / p.1.getD col 0) (zero_div _) p.1 j

theorem elimBy_getD (col : Nat) (pn r : Row) (h : r.1.length = pn.1.length) (j : Nat) :
    (elimBy col pn r).1.getD j 0 = r.1.getD j 0 - r.1.getD col 0 * pn.1.getD j 0 := by
  unfold elimBy
  exact getD_zipWith0 (fun a b => a - r.1.getD col 0 * b) (by simp) r.1 pn.1 h j

theorem pivotNorm_length (col : Nat) (p : Row) : (pivotNorm col p).1.length = p.1.length := by
  simp [pivotNorm]

theorem elimBy_length (col : Nat) (pn r : Row) (h : r.1.length = pn.1.length) :
    (elimBy col pn r).1.length = r.1.length := by
  simp [elimBy, h]

/-! ### the row operations and the solution sets -/

theorem dot_pivotNorm (N col : Nat) (p : Row) (x : Nat → Rat) :
    dot N (pivotNorm col p).1 x = dot N p.1 x / p.1.getD col 0 := by
  unfold dot
  rw [Finset.sum_div]
  apply Finset.sum_congr rfl
  intro j _
  rw [pivotNorm_getD]; ring

theorem dot_elimBy (N col : Nat) (pn r : Row) (h : r.1.length = pn.1.length) (x : Nat → Rat) :
    dot N (elimBy col pn r).1 x = dot N r.1 x - r.1.getD col 0 * dot N pn.1 x := by
  unfold dot
  rw [Finset.mul_sum, ← Finset.sum_sub_distrib]
  apply Finset.sum_congr rfl
  intro j _
  rw [elimBy_getD col pn r h]; ring

theorem sat_of_pivotNorm (N col : Nat) (c : Rat) (x : Nat → Rat) (p : Row)
    (hpv : p.1.getD col 0 ≠ 0) (h : Sat N c x (pivotNorm col p)) : Sat N c x p := by
  unfold Sat at h ⊢
  rw [dot_pivotNorm] at h
  have h2 : (pivotNorm col p).2 = p.2 / p.1.getD col 0 := rfl
  rw [h2] at h
  field_simp at h
  linarith

theorem sat_of_elimBy (N col : Nat) (c : Rat) (x : Nat → Rat) (pn r : Row)
    (hl : r.1.length = pn.1.length) (h1 : Sat N c x pn) (h2 : Sat N c x (elimBy col pn r)) :
    Sat N c x r := by
  unfold Sat at h1 h2 ⊢
  rw [dot_elimBy N col pn r hl] at h2
  have h3 : (elimBy col pn r).2 = r.2 - r.1.getD col 0 * pn.2 := rfl
  rw [h3] at h2
  linear_combination h2 + r.1.getD col 0 * h1

/-! ### shape of the intermediate systems -/

structure Inv (N : Nat) (done todo : List Row) : Prop where
  lenD : ∀ r ∈ done, r.1.length = N
  lenT : ∀ r ∈ todo, r.1.length = N
  shapeD : ∀ k (hk : k < done.length) j, j < done.length →
    (done[k]).1.getD j 0 = if j + k + 1 = done.length then 1 else 0
  shapeT : ∀ r ∈ todo, ∀ j < done.length, r.1.getD j 0 = 0

theorem inv_step (N : Nat) (done todo : List Row) (h : Inv N done todo) (i : Nat)
    (hi : i < todo.length) (hpv : (todo[i]).1.getD done.length 0 ≠ 0) :
    Inv N (pivotNorm done.length todo[i] :: done.map (elimBy done.length (pivotNorm done.length todo[i])))
      ((todo.eraseIdx i).map (elimBy done.length (pivotNorm done.length todo[i]))) := by
  have hp : todo[i] ∈ todo := List.getElem_mem hi
  have hpnlen : (pivotNorm done.length todo[i]).1.length = N := by
    rw [pivotNorm_length]; exact h.lenT _ hp
  have hpn_lt : ∀ j < done.length, (pivotNorm done.length todo[i]).1.getD j 0 = 0 := by
    intro j hj
    rw [pivotNorm_getD, h.shapeT _ hp j hj, zero_div]
  have hpn_col : (pivotNorm done.length todo[i]).1.getD done.length 0 = 1 := by
    rw [pivotNorm_getD, div_self hpv]
  constructor
  · intro r hr
    rcases List.mem_cons.1 hr with rfl | hr
    · exact hpnlen
    · obtain ⟨r', hr', rfl⟩ := List.mem_map.1 hr
      rw [elimBy_length _ _ _ (by rw [hpnlen]; exact h.lenD _ hr')]
      exact h.lenD _ hr'
  · intro r hr
    obtain ⟨r', hr', rfl⟩ := List.mem_map.1 hr
    have hr'' : r' ∈ todo := List.mem_of_mem_eraseIdx hr'
    rw [elimBy_length _ _ _ (by rw [hpnlen]; exact h.lenT _ hr'')]
    exact h.lenT _ hr''
  · intro k hk j hj
    simp only [List.length_cons, List.length_map] at hk hj ⊢
    cases k with
    | zero =>
      simp only [List.getElem_cons_zero]
      by_cases hjc : j = done.length
      · subst hjc; rw [hpn_col, if_pos rfl]
      · rw [hpn_lt j (by omega), if_neg (by omega)]
    | succ k =>
      have hk' : k < done.length := by omega
      simp only [List.getElem_cons_succ, List.getElem_map]
      rw [elimBy_getD _ _ _ (by rw [hpnlen]; exact h.lenD _ (List.getElem_mem hk'))]
      by_cases hjc : j = done.length
      · subst hjc
        rw [hpn_col, if_neg (by omega)]; ring
      · have hj' : j < done.length := by omega
        rw [hpn_lt j hj', h.shapeD k hk' j hj']
        by_cases hh : j + k + 1 = done.length
        · rw [if_pos hh, if_pos (by omega)]; ring
        · rw [if_neg hh, if_neg (by omega)]; ring
  · intro r hr j hj
    simp only [List.length_cons, List.length_map] at hj
    obtain ⟨r', hr', rfl⟩ := List.mem_map.1 hr
    have hr'' : r' ∈ todo := List.mem_of_mem_eraseIdx hr'
    rw [elimBy_getD _ _ _ (by rw [hpnlen]; exact h.lenT _ hr'')]
    by_cases hjc : j = done.length
    · subst hjc; rw [hpn_col]; ring
    · have hj' : j < done.length := by omega
      rw [hpn_lt j hj', h.shapeT _ hr'' j hj']; ring

/-- passing from the system after one step back to the system before it -/
theorem sat_step (N : Nat) (c : Rat) (x : Nat → Rat) (done todo : List Row) (h : Inv N done todo)
    (i : Nat) (hi : i < todo.length) (hpv : (todo[i]).1.getD done.length 0 ≠ 0)
    (hD : ∀ r ∈ pivotNorm done.length todo[i] ::
        done.map (elimBy done.length (pivotNorm done.length todo[i])), Sat N c x r)
    (hT : ∀ r ∈ (todo.eraseIdx i).map (elimBy done.length (pivotNorm done.length todo[i])),
        Sat N c x r) :
    (∀ r ∈ done, Sat N c x r) ∧ (∀ r ∈ todo, Sat N c x r) := by
  have hp : todo[i] ∈ todo := List.getElem_mem hi
  have hpnlen : (pivotNorm done.length todo[i]).1.length = N := by
    rw [pivotNorm_length]; exact h.lenT _ hp
  have hpn := hD _ (List.mem_cons_self ..)
  constructor
  · intro r hr
    apply sat_of_elimBy N done.length c x _ r (by rw [hpnlen]; exact h.lenD _ hr) hpn
    exact hD _ (List.mem_cons_of_mem _ (List.mem_map.2 ⟨r, hr, rfl⟩))
  · intro r hr
    obtain ⟨k, hk, rfl⟩ := List.getElem_of_mem hr
    by_cases hki : k = i
    · subst hki
      exact sat_of_pivotNorm N done.length c x _ hpv hpn
    · apply sat_of_elimBy N done.length c x _ _ (by rw [hpnlen]; exact h.lenT _ hr) hpn
      apply hT
      refine List.mem_map.2 ⟨todo[k], ?_, rfl⟩
      rw [List.mem_eraseIdx_iff_getElem]
      exact ⟨k, hk, hki, rfl⟩

/-! ### no pivot: a non-zero solution of the homogeneous system -/

/-- the vector with `1` at `col`, minus the entry at `col` of the pivot row of each earlier column -/
def kerVec (done : List Row) (j : Nat) : Rat :=
  if j < done.length then - ((done.getD (done.length - 1 - j) ([], 0)).1.getD done.length 0)
  else if j = done.length then 1 else 0

theorem kerVec_sat (N : Nat) (done todo : List Row) (h : Inv N done todo) (hcol : done.length < N)
    (hz : ∀ r ∈ todo, r.1.getD done.length 0 = 0) :
    (∀ r ∈ done, Sat N 0 (kerVec done) r) ∧ (∀ r ∈ todo, Sat N 0 (kerVec done) r) := by
  constructor
  · intro r hr
    obtain ⟨k, hk, rfl⟩ := List.getElem_of_mem hr
    unfold Sat dot
    rw [zero_mul]
    have hterm : ∀ j ∈ Finset.range N, (done[k]).1.getD j 0 * kerVec done j =
        (if j = done.length - 1 - k then kerVec done (done.length - 1 - k) else 0)
          + (if j = done.length then (done[k]).1.getD done.length 0 else 0) := by
      intro j _
      by_cases hj : j < done.length
      · rw [h.shapeD k hk j hj, if_neg (show ¬ j = done.length by omega)]
        by_cases hh : j + k + 1 = done.length
        · have : j = done.length - 1 - k := by omega
          rw [if_pos hh, if_pos this, ← this]; ring
        · rw [if_neg hh, if_neg (by omega)]; ring
      · by_cases hjc : j = done.length
        · subst hjc
          rw [if_neg (by omega), if_pos rfl]
          simp [kerVec]
        · rw [if_neg (by omega), if_neg hjc]
          simp [kerVec, hj, hjc]
    rw [Finset.sum_congr rfl hterm, Finset.sum_add_distrib, Finset.sum_ite_eq', Finset.sum_ite_eq',
      if_pos (Finset.mem_range.2 hcol), if_pos (Finset.mem_range.2 (by omega))]
    have h1 : done.length - 1 - k < done.length := by omega
    have h2 : done.length - 1 - (done.length - 1 - k) = k := by omega
    simp only [kerVec, h1, if_true, h2, getD_lt _ _ _ hk]
    ring
  · intro r hr
    unfold Sat dot
    rw [zero_mul]
    apply Finset.sum_eq_zero
    intro j _
    by_cases hj : j < done.length
    · rw [h.shapeT r hr j hj, zero_mul]
    · by_cases hjc : j = done.length
      · subst hjc; rw [hz r hr, zero_mul]
      · simp [kerVec, hj, hjc]

theorem kerVec_col (done : List Row) : kerVec done done.length = 1 := by
  simp [kerVec]

/-! ### all pivots found: the right-hand sides solve the system -/

theorem final_sat (N : Nat) (done : List Row) (h : Inv N done []) (hN : done.length = N) :
    ∀ r ∈ done, Sat N 1 (fun j => (done.reverse.map (·.2)).getD j 0) r := by
  intro r hr
  obtain ⟨k, hk, rfl⟩ := List.getElem_of_mem hr
  unfold Sat dot
  rw [one_mul]
  have hterm : ∀ j ∈ Finset.range N, (done[k]).1.getD j 0 * (done.reverse.map (·.2)).getD j 0 =
      (if j = N - 1 - k then (done.reverse.map (·.2)).getD (N - 1 - k) 0 else 0) := by
    intro j hj
    have hj' : j < done.length := by rw [hN]; exact Finset.mem_range.1 hj
    rw [h.shapeD k hk j hj']
    by_cases hh : j + k + 1 = done.length
    · have : j = N - 1 - k := by omega
      rw [if_pos hh, if_pos this, ← this]; ring
    · rw [if_neg hh, if_neg (by omega)]; ring
  rw [Finset.sum_congr rfl hterm, Finset.sum_ite_eq', if_pos (Finset.mem_range.2 (by omega))]
  have h1 : N - 1 - k < (done.reverse.map (·.2)).length := by
    simp only [List.length_map, List.length_reverse]; omega
  rw [getD_lt _ _ _ h1, List.getElem_map, List.getElem_reverse]
  congr 2
  omega

/-! ### the elimination loop -/

theorem gj_main (N : Nat) : ∀ (k : Nat) (done todo : List Row), Inv N done todo →
    k + done.length = N → todo.length = k →
    (∀ x : Nat → Rat, (∀ r ∈ done, Sat N 0 x r) → (∀ r ∈ todo, Sat N 0 x r) → ∀ j < N, x j = 0) →
    ∃ xs, gaussJordan k done todo = some xs ∧ xs.length = N ∧
      (∀ r ∈ done, Sat N 1 (fun j => xs.getD j 0) r) ∧
      (∀ r ∈ todo, Sat N 1 (fun j => xs.getD j 0) r) := by
  intro k
  induction k with
  | zero =>
    intro done todo hinv hN hT _
    have ht : todo = [] := List.length_eq_zero_iff.1 hT
    subst ht
    refine ⟨done.reverse.map (·.2), gaussJordan_zero done [], ?_, ?_, ?_⟩
    · simp only [List.length_map, List.length_reverse]; omega
    · exact final_sat N done hinv (by omega)
    · intro r hr; cases hr
  | succ k ih =>
    intro done todo hinv hN hT hker
    rw [gaussJordan_succ]
    cases hf : todo.findIdx? (fun r => !isZero (r.1.getD done.length 0)) with
    | none =>
      exfalso
      rw [List.findIdx?_eq_none_iff] at hf
      have hz : ∀ r ∈ todo, r.1.getD done.length 0 = 0 := by
        intro r hr
        have := hf r hr
        simp only [Bool.not_eq_eq_eq_not, Bool.not_false] at this
        exact (isZero_iff _).1 this
      have hcol : done.length < N := by omega
      obtain ⟨h1, h2⟩ := kerVec_sat N done todo hinv hcol hz
      have := hker (kerVec done) h1 h2 done.length hcol
      rw [kerVec_col] at this
      exact one_ne_zero this
    | some i =>
      rw [List.findIdx?_eq_some_iff_getElem] at hf
      obtain ⟨hi, hpi, _⟩ := hf
      have hpv : (todo[i]).1.getD done.length 0 ≠ 0 := by
        intro h0
        have : isZero ((todo[i]).1.getD done.length 0) = true := (isZero_iff _).2 h0
        rw [this] at hpi
        exact absurd hpi (by decide)
      have hgd : todo.getD i ([], 0) = todo[i] := getD_lt _ _ _ hi
      dsimp only
      rw [hgd]
      have hinv' := inv_step N done todo hinv i hi hpv
      obtain ⟨xs, hxs, hlen, hD, hT'⟩ := ih _ _ hinv'
        (by simp only [List.length_cons, List.length_map]; omega)
        (by simp only [List.length_map, List.length_eraseIdx, hi, if_true]; omega)
        (by
          intro x hD hT'
          obtain ⟨h1, h2⟩ := sat_step N 0 x done todo hinv i hi hpv hD hT'
          exact hker x h1 h2)
      obtain ⟨h1, h2⟩ := sat_step N 1 _ done todo hinv i hi hpv hD hT'
      exact ⟨xs, hxs, hlen, h1, h2⟩

/-- A square system whose homogeneous part has only the zero solution is solved. -/
theorem gaussJordan_complete (N : Nat) (rows : List Row) (hlen : rows.length = N)
    (hrow : ∀ r ∈ rows, r.1.length = N)
    (hker : ∀ x : Nat → Rat, (∀ r ∈ rows, dot N r.1 x = 0) → ∀ j < N, x j = 0) :
    ∃ xs, gaussJordan N [] rows = some xs ∧ xs.length = N ∧
      ∀ r ∈ rows, dot N r.1 (fun j => xs.getD j 0) = r.2 := by
  have hinv : Inv N [] rows := by
    refine ⟨fun r hr => (by cases hr), hrow, fun k hk => absurd hk (Nat.not_lt_zero _),
      fun r _ j hj => absurd hj (Nat.not_lt_zero _)⟩
  obtain ⟨xs, hxs, hl, _, hT⟩ := gj_main N N [] rows hinv (by simp) hlen (by
    intro x _ hT
    apply hker x
    intro r hr
    have := hT r hr
    unfold Sat at this
    rw [this, zero_mul])
  refine ⟨xs, hxs, hl, ?_⟩
  intro r hr
  have := hT r hr
  unfold Sat at this
  rw [this, one_mul]

/-- a row given by a coefficient function on the unknowns, as a list sum -/
theorem dot_map (us : List Nat) (coef : Nat → Rat) (y : Nat → Rat) :
    ∀ x : Nat → Rat, (∀ j (hj : j < us.length), x j = y us[j]) →
    dot us.length (us.map coef) x = (us.map (fun u => coef u * y u)).sum := by
  induction us with
  | nil => intro x _; simp [dot]
  | cons u us ih =>
    intro x hx
    unfold dot at ih ⊢
    rw [List.length_cons, Finset.sum_range_succ']
    have := ih (fun j => x (j + 1)) (fun j hj => by
      have := hx (j + 1) (by simp only [List.length_cons]; omega)
      simpa using this)
    simp only [List.map_cons, List.getD_cons_succ, List.getD_cons_zero, List.sum_cons]
    rw [this, hx 0 (by simp)]
    simp only [List.getElem_cons_zero]
    ring

end GJ
end Spowtd
