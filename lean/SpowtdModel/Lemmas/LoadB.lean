import SpowtdModel.Model.Load
import SpowtdModel.Lemmas.LoadBSort
import SpowtdModel.Lemmas.LoadBInterp
import SpowtdModel.Lemmas.LoadBGaps
import SpowtdModel.Lemmas.LoadBChord
/- Helper lemmas for Props/C10Levels.lean: inversion of `load` and assembly. -/
namespace Spowtd
namespace LoadB
variable {α : Type}

/-- the valid intervals used by `load` -/
def ivsOf (f : Files α) (dt : Int) : List (Int × Int × Nat) :=
  validIntervals ((gridCore f.rain f.level).headD 0) ((gridCore f.rain f.level).getLastD 0 + dt)
    (gapsOf ((sortRows f.level).map (·.1)))

theorem load_invB [Num α] (f : Files α) (d : Loaded α) (h : load f false = .ok d) :
    hasDup (f.level.map (·.1)) = false ∧
    ∃ dt, stepOf (gridCore f.rain f.level) = some dt ∧
      d.level = (gridCore f.rain f.level).filterMap (fun g =>
        match labelOf (ivsOf f dt) g, interp (sortRows f.level) g with
        | some _, some v => some (g, v)
        | _, _ => none) ∧
      d.grid = (gridCore f.rain f.level ++ [(gridCore f.rain f.level).getLastD 0 + dt]).map
        (fun g => (g, labelOf (ivsOf f dt) g)) := by
  unfold load at h
  simp only [Bool.false_eq_true, if_false] at h
  split at h
  · cases h
  · rename_i hdup
    simp only [Bool.or_eq_true, not_or, Bool.not_eq_true] at hdup
    refine ⟨hdup.2, ?_⟩
    split at h
    · cases h
    · rename_i dt hdt
      refine ⟨dt, hdt, ?_⟩
      split at h
      · cases h
      · cases h
        exact ⟨rfl, rfl⟩

/-! ### the grid core -/

theorem gridCore_sortedB (rain level : List (Int × α)) :
    (gridCore rain level).Pairwise (· ≤ ·) := by
  unfold gridCore
  split
  · apply List.Pairwise.filter
    exact List.pairwise_map.2 (sortRows_sortedLE rain)
  · exact List.Pairwise.nil

theorem mem_gridCoreB (rain level : List (Int × α)) (g : Int) (hg : g ∈ gridCore rain level) :
    ∃ lo nhi, minOf (level.map (·.1)) = some lo ∧ minOf (level.map (fun z => - z.1)) = some nhi ∧
      lo ≤ g ∧ g ≤ - nhi := by
  unfold gridCore at hg
  split at hg
  · rename_i lo nhi h1 h2
    rw [List.mem_filter] at hg
    simp only [Bool.and_eq_true, decide_eq_true_eq] at hg
    exact ⟨lo, nhi, h1, h2, hg.2.1, hg.2.2⟩
  · simp at hg

theorem getLastD_memB (l : List Int) (d : Int) (h : l ≠ []) : l.getLastD d ∈ l := by
  induction l generalizing d with
  | nil => exact absurd rfl h
  | cons x xs ih =>
    rw [List.getLastD_cons]
    cases xs with
    | nil => simp
    | cons y ys => exact List.mem_cons_of_mem _ (ih x (by simp))

theorem le_getLastDB (l : List Int) (d g : Int) (hs : l.Pairwise (· ≤ ·)) (hg : g ∈ l) :
    g ≤ l.getLastD d := by
  induction l generalizing d with
  | nil => simp at hg
  | cons x xs ih =>
    rw [List.getLastD_cons]
    rw [List.pairwise_cons] at hs
    cases xs with
    | nil =>
      simp only [List.mem_singleton] at hg
      simp [hg]
    | cons y ys =>
      rcases List.mem_cons.1 hg with rfl | hg
      · exact hs.1 _ (getLastD_memB (y :: ys) g (by simp))
      · exact ih x hs.2 hg

theorem headD_leB (l : List Int) (d g : Int) (hs : l.Pairwise (· ≤ ·)) (hg : g ∈ l) :
    l.headD d ≤ g := by
  cases l with
  | nil => simp at hg
  | cons x xs =>
    rw [List.pairwise_cons] at hs
    rcases List.mem_cons.1 hg with rfl | hg
    · simp
    · exact hs.1 g hg

theorem stepOf_nonnegB (core : List Int) (dt : Int) (hs : core.Pairwise (· ≤ ·))
    (h : stepOf core = some dt) : 0 ≤ dt := by
  unfold stepOf at h
  cases core with
  | nil => simp [diffs] at h
  | cons a t =>
    cases t with
    | nil => simp [diffs] at h
    | cons b rest =>
      have hd : diffs (a :: b :: rest) = (b - a) :: diffs (b :: rest) := rfl
      rw [hd] at h
      simp only at h
      split at h
      · simp only [Option.some.injEq] at h
        rw [List.pairwise_cons] at hs
        have := hs.1 b List.mem_cons_self
        omega
      · cases h

theorem levelEpochs_strictB (level : List (Int × α)) (h : hasDup (level.map (·.1)) = false) :
    ((sortRows level).map (·.1)).Pairwise (· < ·) :=
  List.pairwise_map.2 (sortRows_sortedLT level h)

theorem gaps_okB (level : List (Int × α)) (h : hasDup (level.map (·.1)) = false) :
    GapsOK (gapsOf ((sortRows level).map (·.1))) :=
  gapsOf_okB _ (levelEpochs_strictB level h)

/-- every core instant lies within the span of the sorted level record -/
theorem core_spanB (rain level : List (Int × α)) (g : Int) (hg : g ∈ gridCore rain level) :
    (∃ a ∈ sortRows level, a.1 ≤ g) ∧ (∃ b ∈ sortRows level, g ≤ b.1) := by
  obtain ⟨lo, nhi, h1, h2, h3, h4⟩ := mem_gridCoreB rain level g hg
  have m1 := minOf_memB _ _ h1
  have m2 := minOf_memB _ _ h2
  rw [List.mem_map] at m1 m2
  obtain ⟨a, ha, ha1⟩ := m1
  obtain ⟨b, hb, hb1⟩ := m2
  refine ⟨⟨a, (mem_sortRowsB a level).2 ha, ?_⟩, ⟨b, (mem_sortRowsB b level).2 hb, ?_⟩⟩
  · omega
  · omega

/-! ### assembly -/

theorem ivsOf_labelB (f : Files α) (dt : Int) (g : Int) :
    labelOf (ivsOf f dt) g =
      lab ((gridCore f.rain f.level).getLastD 0 + dt) ((gridCore f.rain f.level).headD 0)
        (gapsOf ((sortRows f.level).map (·.1))) 0 g := by
  unfold ivsOf lab
  rw [validIntervals_eqB]

theorem mem_levelB [Num α] (core : List Int) (ivs : List (Int × Int × Nat)) (zs : List (Int × α))
    (g : Int) (v : α) :
    (g, v) ∈ core.filterMap (fun g =>
        match labelOf ivs g, interp zs g with
        | some _, some v => some (g, v)
        | _, _ => none) ↔
      g ∈ core ∧ (∃ l, labelOf ivs g = some l) ∧ interp zs g = some v := by
  rw [List.mem_filterMap]
  constructor
  · rintro ⟨e, he, hm⟩
    split at hm
    · rename_i l w hl hw
      simp only [Option.some.injEq, Prod.mk.injEq] at hm
      obtain ⟨rfl, rfl⟩ := hm
      exact ⟨he, ⟨l, hl⟩, hw⟩
    · cases hm
  · rintro ⟨hc, ⟨l, hl⟩, hw⟩
    exact ⟨g, hc, by rw [hl, hw]⟩

end LoadB
end Spowtd
