import SpowtdModel.Model.Load
import SpowtdModel.Lemmas.LoadBSort
import SpowtdModel.Lemmas.LoadBChord
/- Helper lemmas for Props/C10Levels.lean. -/
namespace Spowtd
namespace LoadB
end LoadB
end Spowtd
