import SpowtdModel.Model.Load
import SpowtdModel.Lemmas.LoadBSort
/- `interp`: bracket characterisation and totality inside the record span. -/
namespace Spowtd
namespace LoadB
variable {α : Type} [Num α]

/-- the interpolation formula of `interp` -/
def formulaB (a b : Int × α) (x : Int) : α :=
  Num.add (Num.mul (Num.div (Num.sub b.2 a.2) (Num.ofInt (b.1 - a.1))) (Num.ofInt (x - a.1))) a.2

theorem interp_bracketB (zs : List (Int × α)) (x : Int) (v : α) (h : interp zs x = some v) :
    ∃ i, ∃ a ∈ zs[i]?,
      (a.1 = x ∧ v = a.2) ∨
      ∃ b ∈ zs[i + 1]?, a.1 < x ∧ x < b.1 ∧ v = formulaB a b x := by
  induction zs with
  | nil => simp [interp] at h
  | cons a t ih =>
    cases t with
    | nil =>
      simp only [interp] at h
      by_cases hx : x = a.1
      · simp only [hx, beq_self_eq_true, if_true, Option.some.injEq] at h
        exact ⟨0, a, by simp, Or.inl ⟨hx.symm, h.symm⟩⟩
      · have : (x == a.1) = false := by simpa using hx
        simp [this] at h
    | cons b rest =>
      simp only [interp] at h
      by_cases h1 : x < a.1
      · simp [h1] at h
      · simp only [h1, if_false] at h
        by_cases hx : x = a.1
        · simp only [hx, beq_self_eq_true, if_true, Option.some.injEq] at h
          exact ⟨0, a, by simp, Or.inl ⟨hx.symm, h.symm⟩⟩
        · have hb : (x == a.1) = false := by simpa using hx
          simp only [hb, Bool.false_eq_true, if_false] at h
          by_cases h2 : x < b.1
          · simp only [h2, if_true, Option.some.injEq] at h
            refine ⟨0, a, by simp, Or.inr ⟨b, by simp, by omega, h2, ?_⟩⟩
            exact h.symm
          · simp only [h2, if_false] at h
            obtain ⟨i, c, hc, hrest⟩ := ih h
            refine ⟨i + 1, c, ?_, ?_⟩
            · simpa using hc
            · rcases hrest with h0 | ⟨e, he, h3⟩
              · exact Or.inl h0
              · exact Or.inr ⟨e, by simpa using he, h3⟩

theorem interp_someB (zs : List (Int × α)) (x : Int) (hs : SortedLE zs)
    (hlo : ∃ a ∈ zs, a.1 ≤ x) (hhi : ∃ b ∈ zs, x ≤ b.1) : ∃ v, interp zs x = some v := by
  induction zs with
  | nil => obtain ⟨a, ha, _⟩ := hlo; simp at ha
  | cons a t ih =>
    unfold SortedLE at hs ih
    rw [List.pairwise_cons] at hs
    cases t with
    | nil =>
      obtain ⟨c, hc, hcx⟩ := hlo
      obtain ⟨e, he, hex⟩ := hhi
      simp only [List.mem_singleton] at hc he
      rw [hc] at hcx; rw [he] at hex
      have : x = a.1 := by omega
      exact ⟨a.2, by simp [interp, this]⟩
    | cons b rest =>
      simp only [interp]
      have h1 : ¬ x < a.1 := by
        obtain ⟨c, hc, hcx⟩ := hlo
        rcases List.mem_cons.1 hc with rfl | hc
        · omega
        · have := hs.1 c hc; omega
      simp only [h1, if_false]
      by_cases hx : x = a.1
      · exact ⟨a.2, by simp [hx]⟩
      · have hb : (x == a.1) = false := by simpa using hx
        simp only [hb, Bool.false_eq_true, if_false]
        by_cases h2 : x < b.1
        · simp only [h2, if_true]
          exact ⟨_, rfl⟩
        · simp only [h2, if_false]
          apply ih hs.2
          · exact ⟨b, List.mem_cons_self, by omega⟩
          · obtain ⟨e, he, hex⟩ := hhi
            rcases List.mem_cons.1 he with rfl | he
            · omega
            · exact ⟨e, he, hex⟩

end LoadB
end Spowtd
