import SpowtdModel.Model.Pest
/- Helper lemmas for Props/C19.lean. -/
namespace Spowtd.Pest

/-! ### case folding -/

theorem lower_append (a b : String) : lower (a ++ b) = lower a ++ lower b := by
  apply String.toList_injective
  simp only [lower, String.toList_map, String.toList_append, List.map_append]

theorem lower_K_knot (s : String) : lower ("K_knot_" ++ s) = lower ("k_knot_" ++ s) := by
  rw [lower_append, lower_append]
  have h : lower "K_knot_" = lower "k_knot_" := by
    apply String.toList_injective
    simp only [lower, String.toList_map]
    decide
  rw [h]

/-! ### placeholders of template lines -/

theorem names_lit (s : String) : TLine.names (lit s) = [] := rfl

theorem flatMap_names_lit {α : Type} (f : α → String) (l : List α) :
    (l.map (fun v => lit (f v))).flatMap TLine.names = [] := by
  induction l with
  | nil => rfl
  | cons a l ih =>
    simp only [List.map_cons, List.flatMap_cons, names_lit, List.nil_append]
    exact ih

theorem flatMap_names_ph {α : Type} (pre : String) (g : α → String) (w : Nat) (l : List α) :
    (l.map (fun i => ([Seg.text pre, Seg.ph (g i) w] : TLine))).flatMap TLine.names = l.map g := by
  induction l with
  | nil => rfl
  | cons a l ih =>
    simp only [List.map_cons, List.flatMap_cons]
    rw [ih]
    rfl

/-- the placeholders of the specific-yield block -/
def syNames : Sy → List String
  | .peatclsm => ["sd", "theta_s", "b", "psi_s"]
  | .spline _ n => (List.range n).map (fun i => "sy_knot_" ++ toString (i + 1))

theorem syTpl_names (sy : Sy) : (syTpl sy).flatMap TLine.names = syNames sy := by
  cases sy with
  | peatclsm => rfl
  | spline zk n =>
    simp only [syTpl, syNames, List.flatMap_append, flatMap_names_lit, flatMap_names_ph,
      List.flatMap_cons, List.flatMap_nil, names_lit, List.append_nil, List.nil_append]

theorem riseTpl_names (sy : Sy) (tr : Tr) : (riseTpl sy tr).flatMap TLine.names = syNames sy := by
  cases tr with
  | peatclsm k a z =>
    simp only [riseTpl, List.flatMap_append, syTpl_names, List.flatMap_cons, List.flatMap_nil,
      names_lit, List.append_nil, List.nil_append]
  | spline zk kk tmin =>
    simp only [riseTpl, List.flatMap_append, syTpl_names, flatMap_names_lit, List.flatMap_cons,
      List.flatMap_nil, names_lit, List.append_nil, List.nil_append]

theorem risePst_names (sy : Sy) (riseObs : List String) :
    (risePst sy riseObs).params.map (·.name) = syNames sy := by
  cases sy with
  | peatclsm => rfl
  | spline zk n =>
    simp only [risePst, syNames, List.map_map]
    rfl

/-- the placeholders of the transmissivity block of the curves template -/
def trNames : Tr → List String
  | .peatclsm _ _ _ => ["Ksmacz0", "alpha"]
  | .spline _ kk _ => (List.range kk.length).map (fun i => "K_knot_" ++ toString (i + 1)) ++ ["T_min"]

/-- the names the control file declares for the transmissivity section (PEST folds case) -/
def trPstNames : Tr → List String
  | .peatclsm _ _ _ => ["Ksmacz0", "alpha"]
  | .spline _ kk _ => (List.range kk.length).map (fun i => "k_knot_" ++ toString (i + 1)) ++ ["T_min"]

theorem curvesTpl_names (sy : Sy) (tr : Tr) :
    (curvesTpl sy tr).flatMap TLine.names = syNames sy ++ trNames tr := by
  cases tr with
  | peatclsm k a z =>
    simp only [curvesTpl, trNames, List.flatMap_append, syTpl_names, List.flatMap_cons, List.flatMap_nil,
      names_lit, List.append_nil, List.nil_append]
    rfl
  | spline zk kk tmin =>
    simp only [curvesTpl, trNames, List.flatMap_append, syTpl_names, flatMap_names_lit, flatMap_names_ph,
      List.flatMap_cons, List.flatMap_nil, names_lit, List.append_nil, List.nil_append]
    rfl

theorem syPstCurves_names (sy : Sy) : (syPstCurves sy).2.map (·.name) = syNames sy := by
  cases sy with
  | peatclsm => rfl
  | spline zk n =>
    simp only [syPstCurves, syNames, List.map_map]
    rfl

theorem trPstCurves_names (tr : Tr) : (trPstCurves tr).2.map (·.name) = trPstNames tr := by
  cases tr with
  | peatclsm k a z => rfl
  | spline zk kk tmin =>
    simp only [trPstCurves, trPstNames, List.map_append, List.map_map]
    rfl

theorem curvesPst_names (sy : Sy) (tr : Tr) (riseObs recObs : List String) :
    (curvesPst sy tr riseObs recObs).params.map (·.name) = syNames sy ++ trPstNames tr := by
  simp only [curvesPst, List.map_append, syPstCurves_names, trPstCurves_names]

theorem map_lower_K_knot (l : List Nat) :
    (l.map (fun i => "K_knot_" ++ toString (i + 1))).map lower =
      (l.map (fun i => "k_knot_" ++ toString (i + 1))).map lower := by
  induction l with
  | nil => rfl
  | cons a l ih =>
    simp only [List.map_cons, lower_K_knot]
    rw [ih]

theorem trNames_lower (tr : Tr) : (trNames tr).map lower = (trPstNames tr).map lower := by
  cases tr with
  | peatclsm k a z => rfl
  | spline zk kk tmin => simp only [trNames, trPstNames, List.map_append, map_lower_K_knot]

/-! ### zipIdx -/

theorem zipIdx_map_snd {α β : Type} (f : Nat → β) (l : List α) (k : Nat) :
    (l.zipIdx k).map (fun p => f p.2) = (List.range' k l.length).map f := by
  induction l generalizing k with
  | nil => rfl
  | cons a l ih =>
    simp only [List.zipIdx_cons, List.map_cons, List.length_cons, List.range'_succ]
    rw [ih]

theorem zipIdx_map_fst {α β : Type} (f : α → β) (l : List α) (k : Nat) :
    (l.zipIdx k).map (fun p => f p.1) = l.map f := by
  induction l generalizing k with
  | nil => rfl
  | cons a l ih =>
    simp only [List.zipIdx_cons, List.map_cons]
    rw [ih]

/-! ### instruction files -/

theorem filterMap_reads {α : Type} (g : α → String) (lo hi : Nat) (l : List α) :
    (l.map (fun i => Ins.read (g i) lo hi)).filterMap
      (fun i => match i with | .read n _ _ => some n | .marker _ => none) = l.map g := by
  induction l with
  | nil => rfl
  | cons a l ih =>
    simp only [List.map_cons, List.filterMap_cons]
    rw [ih]

theorem riseIns_names (n : Nat) :
    (riseIns n).filterMap (fun i => match i with | .read n _ _ => some n | .marker _ => none) =
      (List.range n).map (fun i => obsName (i + 1)) := by
  simp only [riseIns, List.filterMap_cons, filterMap_reads]

theorem curvesIns_names (n m : Nat) :
    (curvesIns n m).filterMap (fun i => match i with | .read n _ _ => some n | .marker _ => none) =
      (List.range n).map (fun i => obsName (i + 1)) ++ (List.range m).map (fun i => obsName (n + i + 1)) := by
  simp only [curvesIns, List.filterMap_append, List.filterMap_cons, filterMap_reads]

theorem risePst_obs (sy : Sy) (riseObs : List String) :
    (risePst sy riseObs).obs =
      riseObs.zipIdx.map (fun p => { name := obsName (p.2 + 1), value := p.1, group := "storageobs" }) := by
  cases sy <;> rfl

theorem curvesPst_obs (sy : Sy) (tr : Tr) (riseObs recObs : List String) :
    (curvesPst sy tr riseObs recObs).obs =
      riseObs.zipIdx.map (fun p => { name := obsName (p.2 + 1), value := p.1, group := "storageobs" }) ++
      recObs.zipIdx.map (fun p => { name := obsName (riseObs.length + p.2 + 1), value := p.1, group := "timeobs" }) := rfl

/-! ### running an instruction file -/

/-- A block of read instructions consumes one value line each; afterwards the current line is
    the last value line (or the line before the block if the block is empty). -/
theorem runIns_reads (isMark : String → String → Bool) (f : Nat → String) (more : List Ins)
    (tail : List String) (vs : List String) (k : Nat) (prev : String) :
    ∃ last, (last = prev ∨ ∃ v ∈ vs, last = "- " ++ v) ∧
      runIns isMark ((List.range' k vs.length).map (fun i => Ins.read (f i) 3 24) ++ more)
          (prev :: (vs.map (fun v => "- " ++ v) ++ tail)) =
        (vs.zipIdx k).map (fun p => (f p.2, extractColumns 3 24 ("- " ++ p.1))) ++
          runIns isMark more (last :: tail) := by
  induction vs generalizing k prev with
  | nil => exact ⟨prev, Or.inl rfl, rfl⟩
  | cons v vs ih =>
    obtain ⟨last, hl, h⟩ := ih (k + 1) ("- " ++ v)
    refine ⟨last, Or.inr ?_, ?_⟩
    · rcases hl with hl | ⟨w, hw, hl⟩
      · exact ⟨v, List.mem_cons_self, hl⟩
      · exact ⟨w, List.mem_cons_of_mem _ hw, hl⟩
    · simp only [List.length_cons, List.range'_succ, List.map_cons, List.cons_append, runIns,
        List.zipIdx_cons]
      rw [h]

theorem runIns_nil (isMark : String → String → Bool) (l : List String) : runIns isMark [] l = [] := by
  cases l <;> rfl

/-! ### filling a template line -/

theorem names_cons_text (t : String) (l : TLine) : TLine.names (Seg.text t :: l) = TLine.names l := rfl

theorem names_cons_ph (n : String) (w : Nat) (l : TLine) :
    TLine.names (Seg.ph n w :: l) = n :: TLine.names l := rfl

theorem fill_eq_render_of_names_nil (vals : String → String) (l : TLine) (h : l.names = []) :
    TLine.fill vals l = TLine.render l := by
  have key : l.map (fun s => match s with | .text t => t | .ph n _ => vals n) = l.map Seg.render := by
    induction l with
    | nil => rfl
    | cons s l ih =>
      cases s with
      | text t =>
        rw [names_cons_text] at h
        simp only [List.map_cons, Seg.render]
        rw [ih h]
      | ph n w =>
        rw [names_cons_ph] at h
        exact absurd h (List.cons_ne_nil _ _)
  exact congrArg String.join key

/-! ### evaluating `containsSub` on concrete strings

`String.splitOn` is defined by well-founded recursion and does not reduce under `decide`; a copy
with fuel does, and agrees with it whenever it returns a result. -/

open String in
def splitOnAuxF : Nat → String → String → Pos.Raw → Pos.Raw → Pos.Raw → List String → Option (List String)
  | 0, _, _, _, _, _, _ => none
  | fuel + 1, s, sep, b, i, j, r =>
    if i.atEnd s then some ((b.extract s i :: r).reverse)
    else if i.get s == j.get sep then
      if (j.next sep).atEnd sep then
        splitOnAuxF fuel s sep (i.next s) (i.next s) 0 (b.extract s ((i.next s).unoffsetBy (j.next sep)) :: r)
      else splitOnAuxF fuel s sep b (i.next s) (j.next sep) r
    else splitOnAuxF fuel s sep b ((i.unoffsetBy j).next s) 0 r

theorem splitOnAux_eq_of_fuel (fuel : Nat) (s sep : String) (b i j : String.Pos.Raw) (r xs : List String)
    (h : splitOnAuxF fuel s sep b i j r = some xs) : String.splitOnAux s sep b i j r = xs := by
  induction fuel generalizing b i j r with
  | zero => simp only [splitOnAuxF] at h; exact absurd h (by simp)
  | succ fuel ih =>
    rw [String.splitOnAux]
    simp only [splitOnAuxF] at h
    split at h
    · rename_i h1
      simp only [h1, if_true]
      exact Option.some.inj h
    · rename_i h1
      simp only [h1, Bool.false_eq_true, if_false]
      split at h
      · rename_i h2
        simp only [h2, if_true]
        split at h
        · rename_i h3
          simp only [h3, if_true]
          exact ih _ _ _ _ h
        · rename_i h3
          simp only [h3, Bool.false_eq_true, if_false]
          exact ih _ _ _ _ h
      · rename_i h2
        simp only [h2, Bool.false_eq_true, if_false]
        exact ih _ _ _ _ h

theorem containsSub_eq_of_fuel (fuel : Nat) (t l : String) (xs : List String) (ht : (t == "") = false)
    (h : splitOnAuxF fuel l t 0 0 0 [] = some xs) : containsSub t l = decide (xs.length ≥ 2) := by
  simp only [containsSub, String.splitOn, ht, Bool.false_eq_true, if_false,
    splitOnAux_eq_of_fuel fuel l t 0 0 0 [] xs h]

theorem containsSub_RISE_RISE : containsSub RISE_MARK RISE_MARK = true :=
  containsSub_eq_of_fuel 100 RISE_MARK RISE_MARK ["", ""] (by decide) (by decide)

theorem containsSub_REC_REC : containsSub REC_MARK REC_MARK = true :=
  containsSub_eq_of_fuel 100 REC_MARK REC_MARK ["", ""] (by decide) (by decide)

theorem containsSub_REC_RISE : containsSub REC_MARK RISE_MARK = false :=
  containsSub_eq_of_fuel 100 REC_MARK RISE_MARK [RISE_MARK] (by decide) (by decide)

end Spowtd.Pest
