import SpowtdModel.Lemmas.LeastSquares
import Mathlib.Tactic.Ring
import Mathlib.Tactic.FieldSimp
import Mathlib.Tactic.Linarith
import Mathlib.Algebra.Order.Field.Rat
import Mathlib.Algebra.BigOperators.Group.List.Basic
import Mathlib.Data.List.Nodup
/-
  Helper lemmas for Props/C05, C06, C08 (part 1): the `Num Rat` wrappers, finite sums over
  lists, the series list of a mapping.
-/
namespace Spowtd
namespace LS

/-! ### `Num Rat` wrappers -/

@[simp] theorem num_add (a b : Rat) : Num.add a b = a + b := rfl
@[simp] theorem num_sub (a b : Rat) : Num.sub a b = a - b := rfl
@[simp] theorem num_mul (a b : Rat) : Num.mul a b = a * b := rfl
@[simp] theorem num_div (a b : Rat) : Num.div a b = a / b := rfl
@[simp] theorem num_ofInt (i : Int) : (Num.ofInt i : Rat) = (i : Rat) := rfl
theorem num_beq (a b : Rat) : Num.beq a b = (a == b) := rfl

theorem foldl_add (l : List Rat) (a : Rat) : l.foldl Num.add a = a + l.sum := by
  induction l generalizing a with
  | nil => simp
  | cons b l ih => simp only [List.foldl_cons, ih, num_add, List.sum_cons, add_assoc]

@[simp] theorem num_sum (l : List Rat) : Num.sum l = l.sum := by
  simp only [Num.sum, foldl_add, num_ofInt, Int.cast_zero, zero_add]

theorem mean_eq (l : List Rat) : mean l = l.sum / (l.length : Rat) := by
  simp only [mean, num_sum, num_div, num_ofInt, Int.cast_natCast]

theorem isZero_iff (a : Rat) : isZero a = true ↔ a = 0 := by
  simp only [isZero, num_beq, num_ofInt, Int.cast_zero, beq_iff_eq]

/-! ### finite sums over lists -/

theorem sum_map_add' {β : Type} (l : List β) (f g : β → Rat) :
    (l.map (fun a => f a + g a)).sum = (l.map f).sum + (l.map g).sum := by
  induction l with
  | nil => simp
  | cons a l ih => simp only [List.map_cons, List.sum_cons, ih]; ring

theorem sum_map_mul_left' {β : Type} (l : List β) (c : Rat) (f : β → Rat) :
    (l.map (fun a => c * f a)).sum = c * (l.map f).sum := by
  induction l with
  | nil => simp
  | cons a l ih => simp only [List.map_cons, List.sum_cons, ih]; ring

theorem sum_map_sub_const {β : Type} (l : List β) (c : Rat) (f : β → Rat) :
    (l.map (fun a => f a - c)).sum = (l.map f).sum - (l.length : Rat) * c := by
  induction l with
  | nil => simp
  | cons a l ih =>
    simp only [List.map_cons, List.sum_cons, ih, List.length_cons, Nat.cast_add, Nat.cast_one]; ring

theorem sum_map_const {β : Type} (l : List β) (c : Rat) :
    (l.map (fun _ => c)).sum = (l.length : Rat) * c := by
  induction l with
  | nil => simp
  | cons a l ih =>
    simp only [List.map_cons, List.sum_cons, ih, List.length_cons, Nat.cast_add, Nat.cast_one]; ring

theorem sum_map_zero {β : Type} (l : List β) : (l.map (fun _ => (0 : Rat))).sum = 0 := by
  rw [sum_map_const]; ring

theorem sum_map_congr {β : Type} (l : List β) (f g : β → Rat) (h : ∀ a ∈ l, f a = g a) :
    (l.map f).sum = (l.map g).sum := by
  rw [List.map_congr_left h]

theorem sum_nonneg' (l : List Rat) (h : ∀ a ∈ l, 0 ≤ a) : 0 ≤ l.sum := by
  induction l with
  | nil => simp
  | cons a l ih =>
    simp only [List.sum_cons]
    have h1 := h a (List.mem_cons_self ..)
    have h2 := ih (fun b hb => h b (List.mem_cons_of_mem _ hb))
    linarith

theorem sum_eq_zero_all (l : List Rat) (h : ∀ a ∈ l, 0 ≤ a) (hs : l.sum = 0) : ∀ a ∈ l, a = 0 := by
  induction l with
  | nil => intro a ha; cases ha
  | cons b l ih =>
    simp only [List.sum_cons] at hs
    have h1 := h b (List.mem_cons_self ..)
    have h2 := sum_nonneg' l (fun c hc => h c (List.mem_cons_of_mem _ hc))
    intro a ha
    rcases List.mem_cons.1 ha with rfl | ha
    · linarith
    · exact ih (fun c hc => h c (List.mem_cons_of_mem _ hc)) (by linarith) a ha

theorem sum_map_nonneg {β : Type} (l : List β) (f : β → Rat) (h : ∀ a ∈ l, 0 ≤ f a) :
    0 ≤ (l.map f).sum := by
  apply sum_nonneg'
  intro a ha
  obtain ⟨b, hb, rfl⟩ := List.mem_map.1 ha
  exact h b hb

theorem sum_map_eq_zero_all {β : Type} (l : List β) (f : β → Rat) (h : ∀ a ∈ l, 0 ≤ f a)
    (hs : (l.map f).sum = 0) : ∀ a ∈ l, f a = 0 := by
  intro a ha
  apply sum_eq_zero_all _ _ hs (f a) (List.mem_map.2 ⟨a, ha, rfl⟩)
  intro c hc
  obtain ⟨b, hb, rfl⟩ := List.mem_map.1 hc
  exact h b hb

/-- only the entry at `a` survives -/
theorem sum_indicator (S : List Nat) (hS : S.Nodup) (a : Nat) (ha : a ∈ S) (g : Nat → Rat) :
    (S.map (fun s => if a = s then g s else 0)).sum = g a := by
  induction S with
  | nil => cases ha
  | cons b S ih =>
    have hb : b ∉ S := (List.nodup_cons.1 hS).1
    have hS' : S.Nodup := (List.nodup_cons.1 hS).2
    simp only [List.map_cons, List.sum_cons]
    by_cases hab : a = b
    · subst hab
      have : (S.map (fun s => if a = s then g s else 0)).sum = 0 := by
        refine (sum_map_congr S _ (fun _ => (0 : Rat)) ?_).trans (sum_map_zero S)
        intro s hs
        have : a ≠ s := fun h => hb (h ▸ hs)
        simp only [this, if_false]
      rw [this]; simp
    · have ha' : a ∈ S := by
        rcases List.mem_cons.1 ha with h | h
        · exact absurd h hab
        · exact h
      rw [ih hS' ha']; simp only [hab, if_false, zero_add]

theorem sum_indicator_not_mem (S : List Nat) (a : Nat) (ha : a ∉ S) (g : Nat → Rat) :
    (S.map (fun s => if a = s then g s else 0)).sum = 0 := by
  refine (sum_map_congr S _ (fun _ => (0 : Rat)) ?_).trans (sum_map_zero S)
  intro s hs
  have : a ≠ s := fun h => ha (h ▸ hs)
  simp only [this, if_false]

/-- regroup a sum over the entries of one level by series -/
theorem regroup (S : List Nat) (hS : S.Nodup) (d : Nat → Rat) (f : Nat × Rat → Rat)
    (l : List (Nat × Rat)) (hl : ∀ st ∈ l, st.1 ∈ S) :
    (l.map (fun st => f st * d st.1)).sum =
      (S.map (fun s => d s * ((l.filter (fun st => st.1 == s)).map f).sum)).sum := by
  induction l with
  | nil => simp only [List.map_nil, List.sum_nil, List.filter_nil, mul_zero]; rw [sum_map_zero]
  | cons a l ih =>
    have h1 : (S.map (fun s => d s * (((a :: l).filter (fun st => st.1 == s)).map f).sum)).sum
        = (S.map (fun s => (if a.1 = s then (fun s => f a * d s) s else 0)
            + d s * ((l.filter (fun st => st.1 == s)).map f).sum)).sum := by
      apply sum_map_congr
      intro s _
      by_cases h : a.1 = s
      · have hb : (a.1 == s) = true := by simp [h]
        rw [List.filter_cons_of_pos (p := fun st : Nat × Rat => st.1 == s) hb, List.map_cons, List.sum_cons, if_pos h]; ring
      · have hb : ¬ (a.1 == s) = true := by simp [h]
        rw [List.filter_cons_of_neg (p := fun st : Nat × Rat => st.1 == s) hb, if_neg h, zero_add]
    rw [h1, sum_map_add', sum_indicator S hS a.1 (hl a (List.mem_cons_self ..)),
      ← ih (fun st hst => hl st (List.mem_cons_of_mem _ hst))]
    simp only [List.map_cons, List.sum_cons]

theorem sum_swap {β : Type} (m : List β) (S : List Nat) (F : β → Nat → Rat) (d : Nat → Rat) :
    (m.map (fun b => (S.map (fun s => d s * F b s)).sum)).sum =
      (S.map (fun s => d s * (m.map (fun b => F b s)).sum)).sum := by
  induction m with
  | nil => simp only [List.map_nil, List.sum_nil, mul_zero]; rw [sum_map_zero]
  | cons b m ih =>
    simp only [List.map_cons, List.sum_cons, ih, mul_add]
    rw [sum_map_add']

theorem sum_filter_of_zero {β : Type} (l : List β) (p : β → Bool) (f : β → Rat)
    (h : ∀ a ∈ l, p a = false → f a = 0) : ((l.filter p).map f).sum = (l.map f).sum := by
  induction l with
  | nil => simp
  | cons a l ih =>
    have ih' := ih (fun b hb => h b (List.mem_cons_of_mem _ hb))
    cases hp : p a with
    | true => simp only [List.filter_cons, hp, if_true, List.map_cons, List.sum_cons, ih']
    | false =>
      have := h a (List.mem_cons_self ..) hp
      rw [List.filter_cons_of_neg (by simp [hp]), List.map_cons, List.sum_cons, this, zero_add, ih']

/-! ### the series list of a mapping -/

theorem mem_step (acc : List Nat) (y x : Nat) :
    x ∈ (if acc.contains y then acc else acc ++ [y]) ↔ x ∈ acc ∨ x = y := by
  by_cases h : acc.contains y = true
  · simp only [h, if_true]
    constructor
    · exact Or.inl
    · rintro (h' | rfl)
      · exact h'
      · exact List.contains_iff_mem.1 h |> fun h => by simpa using h
  · simp only [h]
    simp [List.mem_append]

theorem nodup_step (acc : List Nat) (y : Nat) (h : acc.Nodup) :
    (if acc.contains y then acc else acc ++ [y]).Nodup := by
  by_cases hc : acc.contains y = true
  · simp only [hc, if_true]; exact h
  · simp only [hc]
    have : y ∉ acc := by simpa using hc
    refine List.nodup_append.2 ⟨h, List.nodup_singleton y, ?_⟩
    intro a ha b hb
    rw [List.mem_singleton] at hb
    intro hab
    exact this (hb ▸ hab ▸ ha)

theorem mem_unionL (a b : List Nat) (x : Nat) : x ∈ unionL a b ↔ x ∈ a ∨ x ∈ b := by
  unfold unionL
  induction b generalizing a with
  | nil => simp
  | cons y b ih =>
    simp only [List.foldl_cons, ih, mem_step, List.mem_cons]
    tauto

theorem nodup_unionL (a b : List Nat) (h : a.Nodup) : (unionL a b).Nodup := by
  unfold unionL
  induction b generalizing a with
  | nil => simpa using h
  | cons y b ih =>
    simp only [List.foldl_cons]
    exact ih _ (nodup_step a y h)

theorem mem_seriesFold (m : Mapping Rat) (acc : List Nat) (x : Nat) :
    x ∈ m.foldl (fun acc hl => unionL acc (seriesAt hl.2)) acc ↔
      x ∈ acc ∨ ∃ hl ∈ m, x ∈ seriesAt hl.2 := by
  induction m generalizing acc with
  | nil => simp
  | cons hl m ih =>
    simp only [List.foldl_cons, ih, mem_unionL, List.mem_cons, exists_eq_or_imp]
    tauto

theorem nodup_seriesFold (m : Mapping Rat) (acc : List Nat) (h : acc.Nodup) :
    (m.foldl (fun acc hl => unionL acc (seriesAt hl.2)) acc).Nodup := by
  induction m generalizing acc with
  | nil => simpa using h
  | cons hl m ih =>
    simp only [List.foldl_cons]
    exact ih _ (nodup_unionL _ _ h)

theorem mem_seriesOf (m : Mapping Rat) (x : Nat) :
    x ∈ seriesOf m ↔ ∃ hl ∈ m, x ∈ seriesAt hl.2 := by
  unfold seriesOf
  rw [mem_seriesFold]
  simp

theorem nodup_seriesOf (m : Mapping Rat) : (seriesOf m).Nodup :=
  nodup_seriesFold m [] List.nodup_nil

theorem mem_seriesOf_of_mem (m : Mapping Rat) (hl : Int × List (Nat × Rat)) (h : hl ∈ m)
    (st : Nat × Rat) (hst : st ∈ hl.2) : st.1 ∈ seriesOf m :=
  (mem_seriesOf m st.1).2 ⟨hl, h, List.mem_map.2 ⟨st, hst, rfl⟩⟩

end LS
end Spowtd
