import SpowtdModel.Model.Regrid
import SpowtdModel.Model.Curves
import Mathlib.Data.Rat.Floor
import Mathlib.Tactic.Linarith
import Mathlib.Tactic.FieldSimp
import Mathlib.Tactic.Ring
/- Helper lemmas for Props/C12.lean and Props/C13Grid.lean. -/
namespace Spowtd

/-! ### bridges between core `Rat.floor`/`Rat.ceil` and Mathlib's `⌊·⌋`/`⌈·⌉` -/

theorem rat_floor_eq (q : Rat) : Rat.floor q = ⌊q⌋ := rfl

theorem rat_ceil_eq (q : Rat) : Rat.ceil q = ⌈q⌉ := by
  rw [Rat.ceil_eq_neg_floor_neg]; rfl

/-! ### `intRange` -/

theorem mem_intRange {lo hi k : Int} : k ∈ intRange lo hi ↔ lo ≤ k ∧ k < hi := by
  unfold intRange
  simp only [List.mem_map, List.mem_range]
  constructor
  · rintro ⟨i, hi, rfl⟩; omega
  · rintro ⟨h1, h2⟩; exact ⟨(k - lo).toNat, by omega, by omega⟩

theorem intRange_pairwise (lo hi : Int) : (intRange lo hi).Pairwise (· < ·) := by
  unfold intRange
  rw [List.pairwise_map]
  exact List.pairwise_lt_range.imp (by intro a b h; omega)

theorem intRange_reverse_pairwise (lo hi : Int) : (intRange lo hi).reverse.Pairwise (· > ·) := by
  rw [List.pairwise_reverse]
  exact intRange_pairwise lo hi

theorem intRange_nodup (lo hi : Int) : (intRange lo hi).Nodup :=
  (intRange_pairwise lo hi).imp (fun h => Int.ne_of_lt h)

theorem intRange_eq_nil {lo hi : Int} (h : hi ≤ lo) : intRange lo hi = [] := by
  unfold intRange
  have : (hi - lo).toNat = 0 := by omega
  rw [this]; rfl

/-! ### one pair of samples -/

/-- the targets of `crossingsPair` -/
def pairTargets (step y0 y1 : Rat) : List Int :=
  if ⌈y0 / step⌉ < ⌈y1 / step⌉ then intRange ⌈y0 / step⌉ ⌈y1 / step⌉
  else (intRange ⌈y1 / step⌉ ⌈y0 / step⌉).reverse

/-- the position reported for level `k` -/
def pairPos (step x0 y0 x1 y1 : Rat) (k : Int) : Rat :=
  x0 + ((k : Rat) - y0 / step) * (x1 - x0) / (y1 / step - y0 / step)

theorem crossingsPair_rat (step x0 y0 x1 y1 : Rat) :
    crossingsPair step x0 y0 x1 y1 =
      (pairTargets step y0 y1).map (fun k => (k, pairPos step x0 y0 x1 y1 k)) := by
  unfold pairTargets pairPos
  rw [← rat_ceil_eq, ← rat_ceil_eq]
  rfl

theorem crossingsPair_levels (step x0 y0 x1 y1 : Rat) :
    (crossingsPair step x0 y0 x1 y1).map (·.1) = pairTargets step y0 y1 := by
  rw [crossingsPair_rat, List.map_map]
  exact List.map_id' _

theorem mem_crossingsPair {step x0 y0 x1 y1 : Rat} {k : Int} {x : Rat} :
    (k, x) ∈ crossingsPair step x0 y0 x1 y1 ↔
      k ∈ pairTargets step y0 y1 ∧ x = pairPos step x0 y0 x1 y1 k := by
  rw [crossingsPair_rat, List.mem_map]
  constructor
  · rintro ⟨k', hk', he⟩
    rw [Prod.mk.injEq] at he
    obtain ⟨rfl, rfl⟩ := he
    exact ⟨hk', rfl⟩
  · rintro ⟨hk, rfl⟩
    exact ⟨k, hk, rfl⟩

theorem mem_pairTargets_ceil {step y0 y1 : Rat} {k : Int} :
    k ∈ pairTargets step y0 y1 ↔
      (⌈y0 / step⌉ ≤ k ∧ k < ⌈y1 / step⌉) ∨ (⌈y1 / step⌉ ≤ k ∧ k < ⌈y0 / step⌉) := by
  unfold pairTargets
  split
  · rw [mem_intRange]; omega
  · rw [List.mem_reverse, mem_intRange]; omega

/-- a level is a target iff it separates the two scaled values, lower included, upper excluded -/
theorem mem_pairTargets_scaled {step y0 y1 : Rat} {k : Int} :
    k ∈ pairTargets step y0 y1 ↔
      (y0 / step ≤ k ∧ (k : Rat) < y1 / step) ∨ (y1 / step ≤ k ∧ (k : Rat) < y0 / step) := by
  rw [mem_pairTargets_ceil, Int.ceil_le, Int.ceil_le, Int.lt_ceil, Int.lt_ceil]

theorem mem_pairTargets {step y0 y1 : Rat} (hs : 0 < step) {k : Int} :
    k ∈ pairTargets step y0 y1 ↔
      (y0 ≤ k * step ∧ (k : Rat) * step < y1) ∨ (y1 ≤ k * step ∧ (k : Rat) * step < y0) := by
  rw [mem_pairTargets_scaled, div_le_iff₀ hs, div_le_iff₀ hs, lt_div_iff₀ hs, lt_div_iff₀ hs]

theorem mem_pairTargets_minmax {step y0 y1 : Rat} (hs : 0 < step) {k : Int} :
    k ∈ pairTargets step y0 y1 ↔
      (min y0 y1 ≤ (k : Rat) * step ∧ (k : Rat) * step < max y0 y1) := by
  rw [mem_pairTargets hs]
  rcases le_total y0 y1 with h | h
  · rw [min_eq_left h, max_eq_right h]
    constructor
    · rintro (h' | ⟨h1, h2⟩)
      · exact h'
      · exact absurd (lt_of_le_of_lt h1 h2) (not_lt.mpr h)
    · exact Or.inl
  · rw [min_eq_right h, max_eq_left h]
    constructor
    · rintro (⟨h1, h2⟩ | h')
      · exact absurd (lt_of_le_of_lt h1 h2) (not_lt.mpr h)
      · exact h'
    · exact Or.inr

theorem pairTargets_nodup (step y0 y1 : Rat) : (pairTargets step y0 y1).Nodup := by
  unfold pairTargets
  split
  · exact intRange_nodup _ _
  · exact List.pairwise_reverse.mpr ((intRange_nodup _ _).imp Ne.symm)

theorem pairTargets_ascending {step y0 y1 : Rat} (hs : 0 < step) (h : y0 ≤ y1) :
    (pairTargets step y0 y1).Pairwise (· < ·) := by
  unfold pairTargets
  split
  · exact intRange_pairwise _ _
  · have hc : ⌈y0 / step⌉ ≤ ⌈y1 / step⌉ :=
      Int.ceil_le_ceil ((div_le_div_iff_of_pos_right hs).mpr h)
    rw [intRange_eq_nil hc]
    exact List.Pairwise.nil

theorem pairTargets_descending {step y0 y1 : Rat} (hs : 0 < step) (h : y1 ≤ y0) :
    (pairTargets step y0 y1).Pairwise (· > ·) := by
  unfold pairTargets
  split
  · rename_i hlt
    have hc : ⌈y1 / step⌉ ≤ ⌈y0 / step⌉ :=
      Int.ceil_le_ceil ((div_le_div_iff_of_pos_right hs).mpr h)
    exact absurd hlt (not_lt.mpr hc)
  · exact intRange_reverse_pairwise _ _

theorem pairPos_on_chord {step x0 y0 x1 y1 : Rat} (hs : 0 < step) (hx : x0 ≠ x1) {k : Int}
    (hk : k ∈ pairTargets step y0 y1) :
    y0 + (y1 - y0) * ((pairPos step x0 y0 x1 y1 k - x0) / (x1 - x0)) = (k : Rat) * step := by
  have hy : y1 - y0 ≠ 0 := by
    rcases (mem_pairTargets hs).mp hk with ⟨h1, h2⟩ | ⟨h1, h2⟩
    · exact ne_of_gt (sub_pos.mpr (lt_of_le_of_lt h1 h2))
    · exact ne_of_lt (sub_neg.mpr (lt_of_le_of_lt h1 h2))
  have hx' : x1 - x0 ≠ 0 := sub_ne_zero.mpr (Ne.symm hx)
  have hs' : step ≠ 0 := ne_of_gt hs
  have hY : y1 / step - y0 / step ≠ 0 := by
    rw [← sub_div]; exact div_ne_zero hy hs'
  unfold pairPos
  field_simp
  ring

theorem pairPos_between {step x0 y0 x1 y1 : Rat} (hx : x0 ≤ x1) {k : Int}
    (hk : k ∈ pairTargets step y0 y1) :
    x0 ≤ pairPos step x0 y0 x1 y1 k ∧ pairPos step x0 y0 x1 y1 k ≤ x1 := by
  have ht : 0 ≤ ((k : Rat) - y0 / step) / (y1 / step - y0 / step) ∧
      ((k : Rat) - y0 / step) / (y1 / step - y0 / step) ≤ 1 := by
    rcases mem_pairTargets_scaled.mp hk with ⟨h1, h2⟩ | ⟨h1, h2⟩
    · have hpos : 0 < y1 / step - y0 / step := by linarith
      exact ⟨div_nonneg (by linarith) (le_of_lt hpos), (div_le_one hpos).mpr (by linarith)⟩
    · have hneg : y1 / step - y0 / step < 0 := by linarith
      exact ⟨div_nonneg_of_nonpos (by linarith) (le_of_lt hneg),
        (div_le_one_of_neg hneg).mpr (by linarith)⟩
  have he : pairPos step x0 y0 x1 y1 k =
      x0 + ((k : Rat) - y0 / step) / (y1 / step - y0 / step) * (x1 - x0) := by
    unfold pairPos; ring
  rw [he]
  have hd : 0 ≤ x1 - x0 := sub_nonneg.mpr hx
  obtain ⟨t0, t1⟩ := ht
  constructor
  · have := mul_nonneg t0 hd
    linarith
  · have := mul_le_mul_of_nonneg_right t1 hd
    linarith

/-! ### a whole series -/

theorem mem_crossings (step : Rat) (pts : List (Rat × Rat)) (c : Int × Rat) :
    c ∈ crossings step pts ↔
      ∃ i a b, pts[i]? = some a ∧ pts[i + 1]? = some b ∧
        c ∈ crossingsPair step a.1 a.2 b.1 b.2 := by
  induction pts with
  | nil => simp [crossings]
  | cons a rest ih =>
    cases rest with
    | nil => simp [crossings]
    | cons b rest =>
      rw [crossings, List.mem_append, ih]
      constructor
      · rintro (h | ⟨i, a', b', h1, h2, h3⟩)
        · exact ⟨0, a, b, rfl, rfl, h⟩
        · exact ⟨i + 1, a', b', h1, h2, h3⟩
      · rintro ⟨i, a', b', h1, h2, h3⟩
        cases i with
        | zero =>
          simp only [List.getElem?_cons_zero, List.getElem?_cons_succ, Option.some.injEq,
            Nat.zero_add] at h1 h2
          subst h1 h2
          exact Or.inl h3
        | succ i =>
          exact Or.inr ⟨i, a', b', h1, h2, h3⟩

theorem crossingsPair_shift_x (step c x0 y0 x1 y1 : Rat) :
    crossingsPair step (x0 + c) y0 (x1 + c) y1 =
      (crossingsPair step x0 y0 x1 y1).map (fun q => (q.1, q.2 + c)) := by
  rw [crossingsPair_rat, crossingsPair_rat, List.map_map]
  apply List.map_congr_left
  intro k _
  simp only [Function.comp, pairPos]
  rw [Prod.mk.injEq]
  refine ⟨rfl, ?_⟩
  ring

theorem crossings_shift (step c : Rat) (pts : List (Rat × Rat)) :
    crossings step (pts.map (fun p => (p.1 + c, p.2))) =
      (crossings step pts).map (fun q => (q.1, q.2 + c)) := by
  induction pts with
  | nil => rfl
  | cons a rest ih =>
    cases rest with
    | nil => rfl
    | cons b rest =>
      rw [List.map_cons] at ih
      rw [List.map_cons, List.map_cons, crossings, crossings, List.map_append, ih,
        crossingsPair_shift_x]

/-! ### distinct levels, mean position per level -/

section levels
variable {α : Type}

def levelStep (acc : List Int) (c : Int × α) : List Int :=
  if acc.contains c.1 then acc else acc ++ [c.1]

theorem levelsOf_eq_foldl (cs : List (Int × α)) : levelsOf cs = cs.foldl levelStep [] := rfl

theorem mem_foldl_levelStep (cs : List (Int × α)) (acc : List Int) (k : Int) :
    k ∈ cs.foldl levelStep acc ↔ k ∈ acc ∨ ∃ x, (k, x) ∈ cs := by
  induction cs generalizing acc with
  | nil => simp
  | cons c cs ih =>
    rw [List.foldl_cons, ih]
    obtain ⟨k', x'⟩ := c
    unfold levelStep
    simp only [List.mem_cons, Prod.mk.injEq]
    split
    · rename_i hc
      have hc' : k' ∈ acc := List.contains_iff_mem.mp hc
      constructor
      · rintro (h | ⟨x, hx⟩)
        · exact Or.inl h
        · exact Or.inr ⟨x, Or.inr hx⟩
      · rintro (h | ⟨x, ⟨rfl, _⟩ | hx⟩)
        · exact Or.inl h
        · exact Or.inl hc'
        · exact Or.inr ⟨x, hx⟩
    · rw [List.mem_append, List.mem_singleton]
      constructor
      · rintro ((h | rfl) | ⟨x, hx⟩)
        · exact Or.inl h
        · exact Or.inr ⟨x', Or.inl ⟨rfl, rfl⟩⟩
        · exact Or.inr ⟨x, Or.inr hx⟩
      · rintro (h | ⟨x, ⟨rfl, _⟩ | hx⟩)
        · exact Or.inl (Or.inl h)
        · exact Or.inl (Or.inr rfl)
        · exact Or.inr ⟨x, hx⟩

theorem nodup_foldl_levelStep (cs : List (Int × α)) (acc : List Int) (h : acc.Nodup) :
    (cs.foldl levelStep acc).Nodup := by
  induction cs generalizing acc with
  | nil => exact h
  | cons c cs ih =>
    rw [List.foldl_cons]
    apply ih
    unfold levelStep
    split
    · exact h
    · rename_i hc
      have hc' : c.1 ∉ acc := fun hm => hc (List.contains_iff_mem.mpr hm)
      rw [List.nodup_append]
      refine ⟨h, List.pairwise_singleton _ _, ?_⟩
      intro a ha b hb
      rw [List.mem_singleton] at hb
      subst hb
      intro hab
      exact hc' (hab ▸ ha)

theorem mem_levelsOf (cs : List (Int × α)) (k : Int) :
    k ∈ levelsOf cs ↔ ∃ x, (k, x) ∈ cs := by
  rw [levelsOf_eq_foldl, mem_foldl_levelStep]
  simp only [List.not_mem_nil, false_or]

theorem levelsOf_nodup (cs : List (Int × α)) : (levelsOf cs).Nodup :=
  nodup_foldl_levelStep cs [] List.nodup_nil

variable [Num α]

theorem meanCrossings_levels (step : α) (pts : List (α × α)) :
    (meanCrossings step pts).map (·.1) = levelsOf (crossings step pts) := by
  unfold meanCrossings
  simp only [List.map_map]
  exact List.map_id' _

theorem mem_meanCrossings (step : α) (pts : List (α × α)) (k : Int) (v : α) :
    (k, v) ∈ meanCrossings step pts ↔
      (∃ x, (k, x) ∈ crossings step pts) ∧
      v = mean (((crossings step pts).filter (fun c => c.1 == k)).map (·.2)) := by
  rw [← mem_levelsOf]
  unfold meanCrossings
  simp only [List.mem_map, Prod.mk.injEq]
  constructor
  · rintro ⟨k', hk', rfl, rfl⟩
    exact ⟨hk', rfl⟩
  · rintro ⟨hk, rfl⟩
    exact ⟨k, hk, rfl, rfl⟩

end levels

/-! ### the water-level grid -/

theorem mem_zetaGrid (zmin zmax step : Rat) (k : Int) :
    k ∈ zetaGrid zmin zmax step ↔ ⌊zmin / step⌋ ≤ k ∧ k < ⌈zmax / step⌉ := by
  unfold zetaGrid
  rw [mem_intRange, ← rat_ceil_eq, ← rat_floor_eq]
  rfl

theorem zetaGrid_of_between {zmin zmax step : Rat} (hs : 0 < step) {k : Int}
    (h1 : zmin ≤ (k : Rat) * step) (h2 : (k : Rat) * step < zmax) :
    k ∈ zetaGrid zmin zmax step := by
  rw [mem_zetaGrid, Int.lt_ceil, lt_div_iff₀ hs]
  refine ⟨?_, h2⟩
  have h3 : zmin / step ≤ k := (div_le_iff₀ hs).mpr h1
  exact Int.cast_le.mp (le_trans (Int.floor_le _) h3)

theorem zetaGrid_floor {zmin zmax step : Rat} (hs : 0 < step) (h : zmin < zmax) :
    ⌊zmin / step⌋ ∈ zetaGrid zmin zmax step ∧ ((⌊zmin / step⌋ : Int) : Rat) * step ≤ zmin := by
  constructor
  · rw [mem_zetaGrid, Int.lt_ceil]
    refine ⟨le_refl _, lt_of_le_of_lt (Int.floor_le _) ?_⟩
    exact (div_lt_div_iff_of_pos_right hs).mpr h
  · exact (le_div_iff₀ hs).mp (Int.floor_le _)

theorem zetaGrid_tight {zmin zmax step : Rat} (hs : 0 < step) {k : Int}
    (h : k ∈ zetaGrid zmin zmax step) :
    zmin - step < (k : Rat) * step ∧ (k : Rat) * step < zmax := by
  rw [mem_zetaGrid, Int.lt_ceil, lt_div_iff₀ hs] at h
  refine ⟨?_, h.2⟩
  have h1 : zmin / step < (⌊zmin / step⌋ : Rat) + 1 := Int.lt_floor_add_one _
  have h2 : ((⌊zmin / step⌋ : Int) : Rat) ≤ (k : Rat) := Int.cast_le.mpr h.1
  have h3 : zmin / step < (k : Rat) + 1 := by linarith
  have h4 := (div_lt_iff₀ hs).mp h3
  linarith

theorem crossings_level_in_grid {zmin zmax step : Rat} (hs : 0 < step) {pts : List (Rat × Rat)}
    (hb : ∀ p ∈ pts, zmin ≤ p.2 ∧ p.2 ≤ zmax) {k : Int} {x : Rat}
    (h : (k, x) ∈ crossings step pts) : k ∈ zetaGrid zmin zmax step := by
  obtain ⟨i, a, b, ha, hb', hc⟩ := (mem_crossings step pts (k, x)).mp h
  have hk := (mem_pairTargets_minmax hs).mp (mem_crossingsPair.mp hc).1
  have ha' := hb a (List.mem_of_getElem? ha)
  have hb'' := hb b (List.mem_of_getElem? hb')
  apply zetaGrid_of_between hs
  · exact le_trans (le_min ha'.1 hb''.1) hk.1
  · exact lt_of_lt_of_le hk.2 (max_le ha'.2 hb''.2)

end Spowtd
