import SpowtdModel.Model.Regrid
import SpowtdModel.Model.Curves
/- Helper lemmas for Props/C12.lean and Props/C13Grid.lean. -/
namespace Spowtd
end Spowtd
