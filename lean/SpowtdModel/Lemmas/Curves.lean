import SpowtdModel.Model.Curves
import SpowtdModel.Model.Pipeline
/- Helper lemmas for Props/C09.lean and Props/C13.lean. -/
namespace Spowtd
end Spowtd
