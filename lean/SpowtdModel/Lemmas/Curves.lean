import SpowtdModel.Model.Curves
import SpowtdModel.Model.Pipeline
/- Helper lemmas for Props/C13.lean (carrier-free data flow through the alignment).
   The `Rat` lemmas for Props/C09.lean are in Lemmas/CurvesRat.lean. -/
namespace Spowtd
variable {α : Type} [Num α]

/-! ### the sorts only rearrange -/

theorem mem_insertByFirst {x y : Nat × List (α × α)} {l : List (Nat × List (α × α))} :
    y ∈ insertByFirst x l ↔ y = x ∨ y ∈ l := by
  induction l with
  | nil => simp [insertByFirst]
  | cons z zs ih =>
    unfold insertByFirst
    simp only []
    split
    · simp only [List.mem_cons]
    · simp only [List.mem_cons, ih]
      constructor
      · rintro (h | h | h)
        · exact Or.inr (Or.inl h)
        · exact Or.inl h
        · exact Or.inr (Or.inr h)
      · rintro (h | h | h)
        · exact Or.inr (Or.inl h)
        · exact Or.inl h
        · exact Or.inr (Or.inr h)

theorem mem_foldl_insertByFirst {y : Nat × List (α × α)} (l acc : List (Nat × List (α × α))) :
    y ∈ l.foldl (fun acc x => insertByFirst x acc) acc ↔ y ∈ acc ∨ y ∈ l := by
  induction l generalizing acc with
  | nil => simp
  | cons x xs ih =>
    rw [List.foldl_cons, ih, mem_insertByFirst, List.mem_cons]
    constructor
    · rintro ((h | h) | h)
      · exact Or.inr (Or.inl h)
      · exact Or.inl h
      · exact Or.inr (Or.inr h)
    · rintro (h | h | h)
      · exact Or.inl (Or.inr h)
      · exact Or.inl (Or.inl h)
      · exact Or.inr h

theorem mem_sortByFirst {y : Nat × List (α × α)} {l : List (Nat × List (α × α))} :
    y ∈ sortByFirst l ↔ y ∈ l := by
  unfold sortByFirst
  rw [mem_foldl_insertByFirst]
  simp

theorem length_insertByFirst (x : Nat × List (α × α)) (l : List (Nat × List (α × α))) :
    (insertByFirst x l).length = l.length + 1 := by
  induction l with
  | nil => rfl
  | cons z zs ih =>
    unfold insertByFirst
    simp only []
    split
    · rfl
    · simp only [List.length_cons, ih]

theorem mem_sortPairs_step {p x : (Int × Int) × (Int × Int)} {acc : List ((Int × Int) × (Int × Int))} :
    x ∈ (acc.filter (fun q => decide (q.1.1 ≤ p.1.1))) ++ [p] ++
        (acc.filter (fun q => decide (p.1.1 < q.1.1))) ↔ x ∈ acc ∨ x = p := by
  simp only [List.mem_append, List.mem_filter, decide_eq_true_eq, List.mem_singleton]
  constructor
  · rintro ((⟨h, _⟩ | h) | ⟨h, _⟩)
    · exact Or.inl h
    · exact Or.inr h
    · exact Or.inl h
  · rintro (h | h)
    · by_cases hx : x.1.1 ≤ p.1.1
      · exact Or.inl (Or.inl ⟨h, hx⟩)
      · exact Or.inr ⟨h, by omega⟩
    · exact Or.inl (Or.inr h)

theorem mem_sortPairs {x : (Int × Int) × (Int × Int)} {l : List ((Int × Int) × (Int × Int))} :
    x ∈ sortPairs l ↔ x ∈ l := by
  unfold sortPairs
  suffices h : ∀ acc : List ((Int × Int) × (Int × Int)),
      x ∈ l.foldl (fun acc p =>
        (acc.filter (fun q => decide (q.1.1 ≤ p.1.1))) ++ [p] ++
          (acc.filter (fun q => decide (p.1.1 < q.1.1)))) acc ↔ x ∈ acc ∨ x ∈ l by
    rw [h]; simp
  induction l with
  | nil => intro acc; simp
  | cons p ps ih =>
    intro acc
    rw [List.foldl_cons, ih, mem_sortPairs_step, List.mem_cons, or_assoc]

theorem mem_sortInter_step {p x : Int × Int} {acc : List (Int × Int)} :
    x ∈ (acc.filter (fun q => decide (q.1 ≤ p.1))) ++ [p] ++
        (acc.filter (fun q => decide (p.1 < q.1))) ↔ x ∈ acc ∨ x = p := by
  simp only [List.mem_append, List.mem_filter, decide_eq_true_eq, List.mem_singleton]
  constructor
  · rintro ((⟨h, _⟩ | h) | ⟨h, _⟩)
    · exact Or.inl h
    · exact Or.inr h
    · exact Or.inl h
  · rintro (h | h)
    · by_cases hx : x.1 ≤ p.1
      · exact Or.inl (Or.inl ⟨h, hx⟩)
      · exact Or.inr ⟨h, by omega⟩
    · exact Or.inl (Or.inr h)

theorem mem_sortInter {x : Int × Int} {l : List (Int × Int)} :
    x ∈ sortInter l ↔ x ∈ l := by
  unfold sortInter
  suffices h : ∀ acc : List (Int × Int),
      x ∈ l.foldl (fun acc p =>
        (acc.filter (fun q => decide (q.1 ≤ p.1))) ++ [p] ++
          (acc.filter (fun q => decide (p.1 < q.1)))) acc ↔ x ∈ acc ∨ x ∈ l by
    rw [h]; simp
  induction l with
  | nil => intro acc; simp
  | cons p ps ih =>
    intro acc
    rw [List.foldl_cons, ih, mem_sortInter_step, List.mem_cons, or_assoc]

/-! ### the extracted series -/

theorem mem_riseSeries {db : Loaded α} {pairs : List ((Int × Int) × (Int × Int))}
    {e : Int} {pts : List (α × α)} (h : (e, pts) ∈ riseSeries db pairs) :
    ∃ p ∈ pairs, p.2.1 = e ∧ ∃ z0 z1, levelAt db p.2.1 = some z0 ∧ levelAt db p.2.2 = some z1 ∧
      pts = [(Num.ofInt 0, z0), (totalRainDepth db p.1, z1)] := by
  unfold riseSeries at h
  obtain ⟨p, hp, hf⟩ := List.mem_filterMap.mp h
  refine ⟨p, hp, ?_⟩
  split at hf
  · rename_i z0 z1 h0 h1
    injection hf with hf
    injection hf with he hpts
    exact ⟨he, z0, z1, h0, h1, hpts.symm⟩
  · exact absurd hf (by simp)

theorem mem_recessionSeries {db : Loaded α} {inter : List (Int × Int)}
    {e : Int} {pts : List (α × α)} (h : (e, pts) ∈ recessionSeries db inter) :
    ∃ q ∈ inter, q.1 = e ∧
      pts = (db.level.filter (fun z => decide (q.1 ≤ z.1) && decide (z.1 ≤ q.2))).map
        (fun z => (Num.ofInt z.1, z.2)) := by
  unfold recessionSeries at h
  obtain ⟨q, hq, hf⟩ := List.mem_map.mp h
  injection hf with he hpts
  exact ⟨q, hq, he, hpts.symm⟩

/-! ### `headMapping`: every entry is a mean crossing of the series it names -/

theorem headMapping_entry {step : α} {L : List (List (α × α))} {hl : Int × List (Nat × α)}
    (hhl : hl ∈ headMapping step L) {st : Nat × α} (hst : st ∈ hl.2) :
    ∃ pts, L[st.1]? = some pts ∧ (hl.1, st.2) ∈ meanCrossings step pts := by
  unfold headMapping at hhl
  simp only [] at hhl
  obtain ⟨k, _, rfl⟩ := List.mem_map.mp hhl
  obtain ⟨p, hp, hf⟩ := List.mem_filterMap.mp hst
  obtain ⟨q, hq, rfl⟩ := List.mem_map.mp hp
  have hq' : L[q.2]? = some q.1 := List.mem_zipIdx_iff_getElem?.mp hq
  cases hfind : (meanCrossings step q.1).find? (fun c => c.1 == k) with
  | none =>
    simp only [hfind, Option.map_none] at hf
    exact absurd hf (by simp)
  | some c =>
    simp only [hfind, Option.map_some, Option.some.injEq] at hf
    subst hf
    have hc : c ∈ meanCrossings step q.1 := List.mem_of_find?_eq_some hfind
    have hk : c.1 = k := by
      have := List.find?_some hfind
      simpa using this
    refine ⟨q.1, hq', ?_⟩
    show (k, c.2) ∈ meanCrossings step q.1
    rw [← hk]
    exact hc

/-! ### `unionL`, `seriesOf` -/

theorem mem_unionL {a b : List Nat} {x : Nat} : x ∈ unionL a b ↔ x ∈ a ∨ x ∈ b := by
  unfold unionL
  induction b generalizing a with
  | nil => simp
  | cons y ys ih =>
    rw [List.foldl_cons, ih, List.mem_cons]
    by_cases hy : a.contains y = true
    · rw [if_pos hy]
      have hya : y ∈ a := by simpa using hy
      constructor
      · rintro (h | h)
        · exact Or.inl h
        · exact Or.inr (Or.inr h)
      · rintro (h | rfl | h)
        · exact Or.inl h
        · exact Or.inl hya
        · exact Or.inr h
    · rw [if_neg hy, List.mem_append, List.mem_singleton]
      constructor
      · rintro ((h | h) | h)
        · exact Or.inl h
        · exact Or.inr (Or.inl h)
        · exact Or.inr (Or.inr h)
      · rintro (h | h | h)
        · exact Or.inl (Or.inl h)
        · exact Or.inl (Or.inr h)
        · exact Or.inr h

omit [Num α] in
theorem mem_seriesOf {m : Mapping α} {s : Nat} :
    s ∈ seriesOf m ↔ ∃ hl ∈ m, ∃ st ∈ hl.2, st.1 = s := by
  unfold seriesOf
  suffices h : ∀ acc : List Nat,
      s ∈ m.foldl (fun acc hl => unionL acc (seriesAt hl.2)) acc ↔
        s ∈ acc ∨ ∃ hl ∈ m, ∃ st ∈ hl.2, st.1 = s by
    rw [h]; simp
  induction m with
  | nil => intro acc; simp
  | cons hl hls ih =>
    intro acc
    rw [List.foldl_cons, ih, mem_unionL]
    have hsa : s ∈ seriesAt hl.2 ↔ ∃ st ∈ hl.2, st.1 = s := by
      unfold seriesAt; exact List.mem_map
    rw [hsa]
    constructor
    · rintro ((h | h) | ⟨hl', hm, h⟩)
      · exact Or.inl h
      · exact Or.inr ⟨hl, List.mem_cons_self, h⟩
      · exact Or.inr ⟨hl', List.mem_cons_of_mem _ hm, h⟩
    · rintro (h | ⟨hl', hm, h⟩)
      · exact Or.inl (Or.inl h)
      · rcases List.mem_cons.mp hm with rfl | hm
        · exact Or.inl (Or.inr h)
        · exact Or.inr ⟨hl', hm, h⟩

/-! ### the sorted id list of `solveOffsets` -/

/-- the `ids` of `solveOffsets` -/
def sortedIds (l : List Nat) : List Nat :=
  l.foldl (fun acc s => if acc.any (fun t => decide (s < t)) then
      (acc.filter (fun t => decide (t < s))) ++ [s] ++ (acc.filter (fun t => decide (s < t))) else acc ++ [s]) []

theorem mem_sortedIds_step {acc : List Nat} {s x : Nat} :
    x ∈ (if acc.any (fun t => decide (s < t)) then
      (acc.filter (fun t => decide (t < s))) ++ [s] ++ (acc.filter (fun t => decide (s < t)))
      else acc ++ [s]) ↔ x ∈ acc ∨ x = s := by
  split
  · simp only [List.mem_append, List.mem_filter, decide_eq_true_eq, List.mem_singleton]
    constructor
    · rintro ((⟨h, _⟩ | h) | ⟨h, _⟩)
      · exact Or.inl h
      · exact Or.inr h
      · exact Or.inl h
    · rintro (h | h)
      · by_cases h1 : x < s
        · exact Or.inl (Or.inl ⟨h, h1⟩)
        · by_cases h2 : s < x
          · exact Or.inr ⟨h, h2⟩
          · exact Or.inl (Or.inr (by omega))
      · exact Or.inl (Or.inr h)
  · simp only [List.mem_append, List.mem_singleton]

theorem mem_sortedIds {l : List Nat} {x : Nat} : x ∈ sortedIds l ↔ x ∈ l := by
  unfold sortedIds
  suffices h : ∀ acc : List Nat,
      x ∈ l.foldl (fun acc s => if acc.any (fun t => decide (s < t)) then
        (acc.filter (fun t => decide (t < s))) ++ [s] ++ (acc.filter (fun t => decide (s < t)))
        else acc ++ [s]) acc ↔ x ∈ acc ∨ x ∈ l by
    rw [h]; simp
  induction l with
  | nil => intro acc; simp
  | cons s ss ih =>
    intro acc
    rw [List.foldl_cons, ih, mem_sortedIds_step, List.mem_cons, or_assoc]

/-! ### Gauss–Jordan returns one value per unknown -/

theorem gaussJordan_length (n : Nat) (done todo : List (List α × α)) (xs : List α)
    (h : gaussJordan n done todo = some xs) : xs.length = done.length + n := by
  induction n generalizing done todo with
  | zero =>
    unfold gaussJordan at h
    injection h with h
    subst h
    simp
  | succ n ih =>
    unfold gaussJordan at h
    simp only [] at h
    split at h
    · exact absurd h (by simp)
    · have := ih _ _ h
      rw [this, List.length_cons, List.length_map]
      omega

/-! ### `solveOffsets`: the solution lists exactly the series of the mapping -/

theorem solveOffsets_keys {m : Mapping α} {sol : List (Nat × α)} (h : solveOffsets m = .ok sol) :
    ∀ s, s ∈ sol.map (·.1) ↔ s ∈ seriesOf m := by
  unfold solveOffsets at h
  simp only [] at h
  change (match (sortedIds (seriesOf m)).getLast? with
    | none => Except.error OffErr.empty
    | some ref =>
      match gaussJordan (sortedIds (seriesOf m)).dropLast.length []
        ((sortedIds (seriesOf m)).dropLast.map
          (equationOf m (sortedIds (seriesOf m)).dropLast)) with
      | none => Except.error OffErr.singular
      | some xs =>
        if (sortedIds (seriesOf m)).all (fun s => isZero (residualSum m
            (lookup ((sortedIds (seriesOf m)).dropLast.zip xs ++ [(ref, Num.ofInt 0)])) s))
        then Except.ok ((sortedIds (seriesOf m)).dropLast.zip xs ++ [(ref, Num.ofInt 0)])
        else Except.error OffErr.singular) = Except.ok sol at h
  generalize hids : sortedIds (seriesOf m) = ids at h
  split at h
  · exact absurd h (by simp)
  · rename_i ref hlast
    split at h
    · exact absurd h (by simp)
    · rename_i xs hgj
      split at h
      · injection h with h
        subst h
        have hlen := gaussJordan_length _ _ _ _ hgj
        obtain ⟨ys, hys⟩ := List.getLast?_eq_some_iff.mp hlast
        have hdl : ids.dropLast = ys := by rw [hys]; simp
        rw [hdl] at hlen ⊢
        have hkeys : (ys.zip xs ++ [(ref, (Num.ofInt 0 : α))]).map (·.1) = ids := by
          rw [List.map_append, List.map_fst_zip (by rw [hlen]; simp), hys]
          rfl
        intro s
        rw [hkeys, ← hids, mem_sortedIds]
      · exact absurd h (by simp)

/-! ### `alignSeries`: indices reported are original indices, entries are own mean crossings -/

/-- What the alignment guarantees about the indices it reports: every offset is keyed by the
    index of a series handed in; every entry of the mapping names such a series, is a mean crossing
    of that series' re-based samples, and has an offset; every level lists at least two entries. -/
structure Traced (step : α) (S : List (List (α × α))) (a : Aligned α) : Prop where
  offs : ∀ i ∈ a.offsets.map (·.1), i < S.length
  entries : ∀ hl ∈ a.mapping, ∀ st ∈ hl.2, ∃ pts, S[st.1]? = some pts ∧
    (hl.1, st.2) ∈ meanCrossings step (rebase pts) ∧ st.1 ∈ a.offsets.map (·.1)
  levels : ∀ hl ∈ a.mapping, 2 ≤ hl.2.length

theorem alignSeries_eq_ok {step : α} {S : List (List (α × α))} {a : Aligned α}
    (h : alignSeries step S = .ok a) :
    ∃ sol sorted kept, sorted = sortByFirst (S.zipIdx.map (fun p => (p.2, rebase p.1))) ∧
      kept = dropSingletons (restrictTo (headMapping step (sorted.map (·.2)))
        (mainComponent (headMapping step (sorted.map (·.2))))) ∧
      solveOffsets kept = .ok sol ∧
      a = { offsets := sol.map (fun p => ((sorted.getD p.1 (0, [])).1, p.2))
            mapping := kept.map (fun hl => (hl.1, hl.2.map (fun st =>
              ((sorted.getD st.1 (0, [])).1, st.2)))) } := by
  unfold alignSeries at h
  split at h
  · exact absurd h (by simp)
  · simp only [] at h
    split at h
    · exact absurd h (by simp)
    · rename_i sol hsol
      injection h with h
      exact ⟨sol, _, _, rfl, rfl, hsol, h.symm⟩

theorem sorted_entry {S : List (List (α × α))} {n : Nat} {pts' : List (α × α)}
    (h : ((sortByFirst (S.zipIdx.map (fun p => (p.2, rebase p.1)))).map (·.2))[n]? = some pts') :
    ∃ i pts, S[i]? = some pts ∧
      (sortByFirst (S.zipIdx.map (fun p => (p.2, rebase p.1)))).getD n (0, []) = (i, rebase pts) ∧
      pts' = rebase pts := by
  rw [List.getElem?_map] at h
  cases hx : (sortByFirst (S.zipIdx.map (fun p => (p.2, rebase p.1))))[n]? with
  | none => rw [hx] at h; exact absurd h (by simp)
  | some x =>
    rw [hx, Option.map_some] at h
    injection h with h
    have hmem : x ∈ sortByFirst (S.zipIdx.map (fun p => (p.2, rebase p.1))) :=
      List.mem_of_getElem? hx
    rw [mem_sortByFirst] at hmem
    obtain ⟨q, hq, rfl⟩ := List.mem_map.mp hmem
    have hq' : S[q.2]? = some q.1 := List.mem_zipIdx_iff_getElem?.mp hq
    refine ⟨q.2, q.1, hq', ?_, h.symm⟩
    rw [List.getD_eq_getElem?_getD, hx]
    rfl

theorem alignSeries_traced {step : α} {S : List (List (α × α))} {a : Aligned α}
    (h : alignSeries step S = .ok a) : Traced step S a := by
  obtain ⟨sol, sorted, kept, hsorted, hkept, hsol, rfl⟩ := alignSeries_eq_ok h
  have hkeys := solveOffsets_keys hsol
  have hsub : ∀ hl ∈ kept, hl ∈ headMapping step (sorted.map (·.2)) ∧ 2 ≤ hl.2.length := by
    intro hl hhl
    rw [hkept] at hhl
    unfold dropSingletons restrictTo at hhl
    rw [List.mem_filter, List.mem_filter] at hhl
    exact ⟨hhl.1.1, by simpa using hhl.2⟩
  have hentry : ∀ hl ∈ kept, ∀ st ∈ hl.2, ∃ i pts, S[i]? = some pts ∧
      sorted.getD st.1 (0, []) = (i, rebase pts) ∧
      (hl.1, st.2) ∈ meanCrossings step (rebase pts) := by
    intro hl hhl st hst
    obtain ⟨pts', hp1, hp2⟩ := headMapping_entry (hsub hl hhl).1 hst
    rw [hsorted] at hp1
    obtain ⟨i, pts, hi, hg, rfl⟩ := sorted_entry hp1
    rw [← hsorted] at hg
    exact ⟨i, pts, hi, hg, hp2⟩
  have hlt : ∀ {i : Nat} {pts : List (α × α)}, S[i]? = some pts → i < S.length := by
    intro i pts hi
    obtain ⟨hlt, _⟩ := List.getElem?_eq_some_iff.mp hi
    exact hlt
  refine ⟨?_, ?_, ?_⟩
  · intro i hi
    simp only [List.map_map, List.mem_map, Function.comp] at hi
    obtain ⟨p, hp, rfl⟩ := hi
    have hps : p.1 ∈ seriesOf kept := (hkeys p.1).mp (List.mem_map_of_mem hp)
    obtain ⟨hl, hhl, st, hst, he⟩ := mem_seriesOf.mp hps
    obtain ⟨i, pts, hi, hg, _⟩ := hentry hl hhl st hst
    rw [← he, hg]
    exact hlt hi
  · intro hl' hhl' st' hst'
    obtain ⟨hl, hhl, rfl⟩ := List.mem_map.mp hhl'
    obtain ⟨st, hst, rfl⟩ := List.mem_map.mp hst'
    obtain ⟨i, pts, hi, hg, hmc⟩ := hentry hl hhl st hst
    refine ⟨pts, ?_, hmc, ?_⟩
    · show S[(sorted.getD st.1 (0, [])).1]? = some pts
      rw [hg]; exact hi
    · have hss : st.1 ∈ seriesOf kept := mem_seriesOf.mpr ⟨hl, hhl, st, hst, rfl⟩
      obtain ⟨p, hp, he⟩ := List.mem_map.mp ((hkeys st.1).mpr hss)
      simp only [List.map_map, List.mem_map, Function.comp]
      exact ⟨p, hp, by rw [he]⟩
  · intro hl' hhl'
    obtain ⟨hl, hhl, rfl⟩ := List.mem_map.mp hhl'
    simp only [List.length_map]
    exact (hsub hl hhl).2

/-! ### `reorigin`, `assemble` -/

theorem reorigin_keeps {a a' : Aligned α} {ref : Option Int} (h : reorigin a ref = .ok a') :
    a'.mapping = a.mapping ∧ a'.offsets.map (·.1) = a.offsets.map (·.1) := by
  unfold reorigin at h
  split at h
  · exact absurd h (by simp)
  · split at h
    · exact absurd h (by simp)
    · injection h with h
      subst h
      refine ⟨rfl, ?_⟩
      simp only [List.map_map]
      rfl

theorem assemble_eq_ok {step : α} {S : List (List (α × α))} {ref : Option α} {a' : Aligned α}
    (h : assemble step S ref = .ok a') :
    ∃ a k, alignSeries step S = .ok a ∧ reorigin a k = .ok a' := by
  unfold assemble at h
  cases ha : alignSeries step S with
  | error e =>
    rw [ha] at h
    have h' : (Except.error e : Except OffErr (Aligned α)) = Except.ok a' := h
    exact absurd h' (by simp)
  | ok a =>
    rw [ha] at h
    cases ref with
    | none => exact ⟨a, none, rfl, h⟩
    | some r =>
      cases hr : refIndex r step with
      | error e =>
        have h' : (do let k ← (do let i ← refIndex r step; pure (some i)); reorigin a k)
            = Except.ok a' := h
        rw [hr] at h'
        have h'' : (Except.error e : Except OffErr (Aligned α)) = Except.ok a' := h'
        exact absurd h'' (by simp)
      | ok i =>
        have h' : (do let k ← (do let i ← refIndex r step; pure (some i)); reorigin a k)
            = Except.ok a' := h
        rw [hr] at h'
        exact ⟨a, some i, rfl, h'⟩

theorem assemble_traced {step : α} {S : List (List (α × α))} {ref : Option α} {a' : Aligned α}
    (h : assemble step S ref = .ok a') : Traced step S a' := by
  obtain ⟨a, k, ha, hr⟩ := assemble_eq_ok h
  obtain ⟨hm, ho⟩ := reorigin_keeps hr
  have ht := alignSeries_traced ha
  refine ⟨?_, ?_, ?_⟩
  · rw [ho]; exact ht.offs
  · rw [hm, ho]; exact ht.entries
  · rw [hm]; exact ht.levels

/-! ### `curveOf` -/

theorem curveOf_eq_ok {step : α} {ref : Option α} {series : List (Int × List (α × α))}
    {t : CurveTables α} (h : curveOf step ref series = .ok t) :
    ∃ a, assemble step (series.map (·.2)) ref = .ok a ∧ t = tablesOf (series.map (·.1)) a := by
  unfold curveOf at h
  cases ha : assemble step (series.map (·.2)) ref with
  | error e =>
    rw [ha] at h
    have h' : (Except.error e : Except OffErr (CurveTables α)) = Except.ok t := h
    exact absurd h' (by simp)
  | ok a =>
    rw [ha] at h
    have h' : (Except.ok (tablesOf (series.map (·.1)) a) : Except OffErr (CurveTables α))
        = Except.ok t := h
    injection h' with h'
    exact ⟨a, rfl, h'.symm⟩

omit [Num α] in
theorem key_of_index {series : List (Int × List (α × α))} {i : Nat} {pts : List (α × α)}
    (h : (series.map (·.2))[i]? = some pts) :
    ((series.map (·.1)).getD i 0, pts) ∈ series := by
  rw [List.getElem?_map] at h
  cases hx : series[i]? with
  | none => rw [hx] at h; exact absurd h (by simp)
  | some x =>
    rw [hx, Option.map_some] at h
    injection h with h
    rw [List.getD_eq_getElem?_getD, List.getElem?_map, hx, Option.map_some, Option.getD_some,
      ← h]
    exact List.mem_of_getElem? hx

theorem curveOf_rows {step : α} {ref : Option α} {series : List (Int × List (α × α))}
    {t : CurveTables α} (h : curveOf step ref series = .ok t) :
    (∀ r ∈ t.intervals, r.1 ∈ series.map (·.1)) ∧
    (∀ c ∈ t.crossings, c.1 ∈ t.intervals.map (·.1) ∧
      ∃ pts, (c.1, pts) ∈ series ∧ (c.2.1, c.2.2) ∈ meanCrossings step (rebase pts)) := by
  obtain ⟨a, ha, rfl⟩ := curveOf_eq_ok h
  have ht := assemble_traced ha
  unfold tablesOf
  simp only []
  constructor
  · intro r hr
    obtain ⟨p, hp, rfl⟩ := List.mem_map.mp hr
    have hlt : p.1 < (series.map (·.1)).length := by
      have := ht.offs p.1 (List.mem_map_of_mem hp)
      simpa using this
    show (series.map (·.1)).getD p.1 0 ∈ series.map (·.1)
    rw [List.getD_eq_getElem?_getD, List.getElem?_eq_getElem hlt, Option.getD_some]
    exact List.getElem_mem hlt
  · intro c hc
    obtain ⟨hl, hhl, hc⟩ := List.mem_flatMap.mp hc
    obtain ⟨st, hst, rfl⟩ := List.mem_map.mp hc
    obtain ⟨pts, hpts, hmc, hoff⟩ := ht.entries hl hhl st hst
    constructor
    · obtain ⟨p, hp, he⟩ := List.mem_map.mp hoff
      simp only [List.map_map, List.mem_map, Function.comp]
      exact ⟨p, hp, by rw [he]⟩
    · exact ⟨pts, key_of_index hpts, hmc⟩

/-! ### distinct keys: the series of a key is unique -/

omit [Num α] in
theorem series_of_key_unique {series : List (Int × List (α × α))}
    (hk : (series.map (·.1)).Nodup) {e : Int} {p p' : List (α × α)}
    (h : (e, p) ∈ series) (h' : (e, p') ∈ series) : p = p' := by
  induction series with
  | nil => exact absurd h (by simp)
  | cons x xs ih =>
    rw [List.map_cons, List.nodup_cons] at hk
    rcases List.mem_cons.mp h with h | h <;> rcases List.mem_cons.mp h' with h' | h'
    · rw [← h] at h'
      injection h' with _ h'
      exact h'.symm
    · exact absurd (List.mem_map_of_mem (f := (·.1)) h') (by rw [← h] at hk; exact hk.1)
    · exact absurd (List.mem_map_of_mem (f := (·.1)) h) (by rw [← h'] at hk; exact hk.1)
    · exact ih hk.2 h h'

/-! ### every level of an alignment is covered by offsets -/

theorem Traced.covered {step : α} {S : List (List (α × α))} {a : Aligned α} (ht : Traced step S a) :
    ∀ hl ∈ a.mapping, hl.2 ≠ [] ∧ ∀ st ∈ hl.2, ∃ v, (st.1, v) ∈ a.offsets := by
  intro hl hhl
  constructor
  · intro he
    have := ht.levels hl hhl
    rw [he] at this
    exact absurd this (by simp)
  · intro st hst
    obtain ⟨_, _, _, hoff⟩ := ht.entries hl hhl st hst
    obtain ⟨p, hp, he⟩ := List.mem_map.mp hoff
    exact ⟨p.2, by rw [← he]; exact hp⟩

end Spowtd
