import SpowtdModel.Model.Matching
/-
  Theory of the deferred-acceptance loop of `Model/Matching.lean`.
  Everything is proved for the *relation* `Reach` (any storm of the pool may be
  taken next), hence for every schedule `pick`.
-/
namespace Spowtd.GS

/-- States reachable by taking, at each iteration, an arbitrary storm of the pool. -/
inductive Reach (P : Problem) : State → Prop
  | init : Reach P (init P)
  | step {st : State} {s : Nat} : Reach P st → s ∈ st.free → Reach P (step P st s)

/-- `a` occurs strictly before `b` in `l`. -/
def Before (l : List Nat) (a b : Nat) : Prop := ∃ pre mid post, l = pre ++ a :: (mid ++ b :: post)

/-- Well-formed problem: no storm listed twice, no rise twice in a preference list. -/
structure WF (P : Problem) : Prop where
  storms_nodup : P.storms.Nodup
  prefs_nodup : ∀ s, (P.prefs s).Nodup
  prefs_rises : ∀ s r, r ∈ P.prefs s → r ∈ P.rises
  rises_nodup : P.rises.Nodup

/-- A matching as a partial map storm ↦ rise inside the candidate relation. -/
structure IsMatching (P : Problem) (μ : Nat → Option Nat) : Prop where
  sub : ∀ s r, μ s = some r → s ∈ P.storms ∧ r ∈ P.prefs s
  inj : ∀ s s' r, μ s = some r → μ s' = some r → s = s'

/-- `(s, r)` blocks `μ`: candidates, not matched together, the storm is unmatched or lists `r`
    before its partner, the rise is unmatched or scores `s` strictly higher than its partner. -/
def Blocking (P : Problem) (μ : Nat → Option Nat) (s r : Nat) : Prop :=
  s ∈ P.storms ∧ r ∈ P.prefs s ∧ μ s ≠ some r ∧
  (μ s = none ∨ ∃ r', μ s = some r' ∧ Before (P.prefs s) r r') ∧
  ((∀ s', μ s' ≠ some r) ∨ ∃ s', μ s' = some r ∧ P.score r s' < P.score r s)

def Stable (P : Problem) (μ : Nat → Option Nat) : Prop :=
  IsMatching P μ ∧ ∀ s r, ¬ Blocking P μ s r

/-- The storm ↦ rise map of a state (inverse of `held`), given as a relation to stay choice-free. -/
def Matched (st : State) (s r : Nat) : Prop := st.held r = some s

/-- No rise scores two of its candidate storms equally. -/
def RiseStrict (P : Problem) : Prop :=
  ∀ r s t, s ∈ P.storms → t ∈ P.storms → r ∈ P.prefs s → r ∈ P.prefs t → s ≠ t → P.score r s ≠ P.score r t

end Spowtd.GS
