import SpowtdModel.Lemmas.Classify
/- Helper lemmas for Props/C01Schema.lean: the rows emitted by `classifyAll` satisfy the key and
   CHECK constraints of schema.sql (`grid_time_flags`, `zeta_interval`). -/
namespace Spowtd

/-! ### generic -/

/-- the keys of `zipWith (fun t f => (t, f)) es fs` are a sublist (in fact a prefix) of `es` -/
theorem zipWith_keys_sublist {β γ : Type} : ∀ (es : List β) (fs : List γ),
    ((List.zipWith (fun t f => (t, f)) es fs).map (·.1)).Sublist es
  | [], _ => by
    rw [List.zipWith_nil_left, List.map_nil]
    exact List.Sublist.slnil
  | _ :: _, [] => by
    rw [List.zipWith_nil_right, List.map_nil]
    exact List.nil_sublist _
  | e :: es, f :: fs => by
    rw [List.zipWith_cons_cons, List.map_cons]
    exact List.Sublist.cons_cons e (zipWith_keys_sublist es fs)

section NoNum
variable {α : Type}

/-- lists of epochs, one per stretch, each drawn from the epochs of its stretch and each without
    repetition, have no repetition when concatenated: stretches share no epoch -/
theorem flatMap_epochs_nodup (db : Loaded α) (h : wellFormedLoadedB db = true) (f : Nat → List Int)
    (hf : ∀ l x, x ∈ f l → x ∈ esOf db l) (hn : ∀ l ∈ labelsOf db, (f l).Nodup) :
    ((labelsOf db).flatMap f).Nodup := by
  have hlab : (labelsOf db).Pairwise (· ≠ ·) := labelsOf_nodup db
  refine List.pairwise_flatMap.2 ⟨hn, hlab.imp ?_⟩
  intro l₁ l₂ hne x hx y hy e
  subst e
  exact hne (samplesOf_epochs_disjoint db h l₁ l₂ x (hf _ _ hx) (hf _ _ hy))

/-- a row of the three-way join carries a water level -/
theorem sampleRow_some_level (db : Loaded α) (label : Nat) (g : Int × Option Nat) (x : Int × α × α)
    (h : sampleRow db label g = some x) : db.level.any (fun z => z.1 == x.1) = true := by
  have hx := (sampleRow_some db label g x h).1
  unfold sampleRow at h
  by_cases hc : (g.2 == some label) = true
  · rw [if_pos hc] at h
    cases h1 : db.rain.find? (fun r => r.1 == g.1) with
    | none => rw [h1] at h; cases h
    | some r =>
      cases h2 : db.level.find? (fun z => z.1 == g.1) with
      | none => rw [h1, h2] at h; cases h
      | some z =>
        rw [List.any_eq_true]
        refine ⟨z, List.mem_of_find?_eq_some h2, ?_⟩
        have hz := List.find?_some h2
        rw [hx]
        exact hz
  · rw [if_neg hc] at h; cases h

/-- every sample epoch of a stretch is an instant with a water level -/
theorem mem_esOf_level (db : Loaded α) (l : Nat) (e : Int) (h : e ∈ esOf db l) :
    db.level.any (fun z => z.1 == e) = true := by
  unfold esOf at h
  rw [List.mem_map] at h
  obtain ⟨x, hx, rfl⟩ := h
  rw [samplesOf_eq, List.mem_filterMap] at hx
  obtain ⟨g, _, hgx⟩ := hx
  exact sampleRow_some_level db l g x hgx

end NoNum

variable {α : Type} [Num α]

/-! ### index level -/

/-- indices of an interstorm run of a stretch, against the number of its samples -/
theorem interstorm_idx_range (j : α) (db : Loaded α) (l : Nat) (a b : Nat)
    (hab : (a, b) ∈ interstormRuns (flagJump j db.step (zsOf db l)) (wet (rsOf db l))) :
    a + 2 ≤ b ∧ b ≤ (esOf db l).length := by
  have := interstorms_range _ _ (a, b) hab
  rw [flagJump_length, wet_length, zsOf_length, rsOf_length, ← esOf_length] at this
  simp only at this
  omega

/-- indices of a recorded rise run of a stretch, against the number of its samples -/
theorem rise_idx_range (pick : List Nat → Nat) (s j : α) (db : Loaded α) (l : Nat)
    (q : (Nat × Nat) × (Nat × Nat))
    (hq : q ∈ idxPairs pick (heavy s (rsOf db l)) (jumps j db.step (zsOf db l))) :
    q.2.1 < q.2.2 ∧ q.2.2 < (esOf db l).length := by
  have := idxPairs_range pick s j _ _ _ q hq
  rw [zsOf_length, ← esOf_length] at this
  exact ⟨this.2.2.1, this.2.2.2⟩

/-- An interstorm interval (at least two flagged samples) and a rise never start at the same
    sample: the second sample of the interval is flagged, hence dry and "explained", hence the
    increment ending there is not a jump; a rise starting at `a` makes exactly that increment
    a jump. -/
theorem interstorm_start_ne_rise_start (j : α) (dt : Int) (zeta rain : List α) (a b c d : Nat)
    (hab : (a, b) ∈ interstormRuns (flagJump j dt zeta) (wet rain))
    (hcd : (c, d) ∈ trueRuns (jumps j dt zeta)) : a ≠ c := by
  intro hac
  subst hac
  obtain ⟨h1, _, h3, _, _⟩ := (mem_interstormRuns _ _ a b).1 hab
  have hi := h3 (a + 1) (by omega) (by omega)
  obtain ⟨hm, hw⟩ := (interstormFlag_true_iff _ _ _).1 hi
  obtain ⟨g1, _, g3, _, _⟩ := (mem_trueRuns _ a d).1 hcd
  have hjmp := g3 a (Nat.le_refl _) g1
  have hJ : (flagJump j dt zeta)[a + 1]? = some true := by
    rw [flagJump_succ]; exact hjmp
  have hmy := (mysteryMask_asserts _ _ (a + 1)).2 hw hJ
  rw [hm] at hmy
  cases hmy

/-! ### dataset level -/

theorem flags_keys_nodup_of_ok (pick : List Nat → Nat) (s j : α) (db : Loaded α)
    (h : wellFormedLoadedB db = true) (c : Classified) (hc : classifyAll pick s j db = .ok c) :
    (c.flags.map (·.1)).Nodup := by
  obtain ⟨_, _, hfl, _, _, _⟩ := (classifyAll_ok_iff pick s j db c).1 hc
  rw [hfl, List.map_flatMap]
  apply flatMap_epochs_nodup db h
  · intro l x hx
    have hx' : x ∈ (stretchOf pick s j db l).flags.map (·.1) := hx
    rw [stretchOf_flags] at hx'
    exact (zipWith_keys_sublist _ _).subset hx'
  · intro l _
    show ((stretchOf pick s j db l).flags.map (·.1)).Nodup
    rw [stretchOf_flags]
    have hne : (esOf db l).Pairwise (· ≠ ·) :=
      (esOf_pairwise db h l).imp (fun hlt => Int.ne_of_lt hlt)
    exact hne.sublist (zipWith_keys_sublist _ _)

theorem interstorm_rows_lt_of_ok (pick : List Nat → Nat) (s j : α) (db : Loaded α)
    (h : wellFormedLoadedB db = true) (c : Classified) (hc : classifyAll pick s j db = .ok c)
    (q : Int × Int) (hq : q ∈ c.interstorms) : q.1 < q.2 := by
  obtain ⟨l, _, a, b, hab, rfl⟩ := (mem_interstorms_of_ok pick s j db c hc q).1 hq
  have r := interstorm_idx_range j db l a b hab
  exact pairwise_lt_getD_lt _ (esOf_pairwise db h l) a (b - 1) (by omega) (by omega)

theorem interstorm_starts_nodup_of_ok (pick : List Nat → Nat) (s j : α) (db : Loaded α)
    (h : wellFormedLoadedB db = true) (c : Classified) (hc : classifyAll pick s j db = .ok c) :
    (c.interstorms.map (·.1)).Nodup := by
  obtain ⟨_, _, _, hi, _, _⟩ := (classifyAll_ok_iff pick s j db c).1 hc
  rw [hi, List.map_flatMap]
  apply flatMap_epochs_nodup db h
  · intro l x hx
    have hx' : x ∈ (stretchOf pick s j db l).interstorms.map (·.1) := hx
    rw [stretchOf_interstorms, List.map_map, List.mem_map] at hx'
    obtain ⟨⟨a, b⟩, hab, rfl⟩ := hx'
    have r := interstorm_idx_range j db l a b hab
    exact getD_mem (esOf db l) a 0 (by omega)
  · intro l _
    show ((stretchOf pick s j db l).interstorms.map (·.1)).Nodup
    rw [stretchOf_interstorms, List.map_map]
    refine List.pairwise_map.2 ((interstormRuns_pairwise _ _).imp_of_mem ?_)
    intro r r' hr hr' hlt e
    have r1 := interstorm_idx_range j db l r.1 r.2 hr
    have r2 := interstorm_idx_range j db l r'.1 r'.2 hr'
    have hlt' := pairwise_lt_getD_lt _ (esOf_pairwise db h l) r.1 r'.1 (by omega) (by omega)
    have e' : (esOf db l).getD r.1 0 = (esOf db l).getD r'.1 0 := e
    omega

theorem zeta_keys_nodup_of_ok (pick : List Nat → Nat) (s j : α) (db : Loaded α)
    (h : wellFormedLoadedB db = true) (c : Classified) (hc : classifyAll pick s j db = .ok c) :
    (c.interstorms.map (·.1) ++ c.pairs.map (·.2.1)).Nodup := by
  refine List.nodup_append.2 ⟨interstorm_starts_nodup_of_ok pick s j db h c hc,
    (pairs_nodup_of_ok pick s j db h c hc).2, ?_⟩
  intro x hx y hy e
  subst e
  rw [List.mem_map] at hx hy
  obtain ⟨q, hq, rfl⟩ := hx
  obtain ⟨p, hp, e⟩ := hy
  obtain ⟨l, _, a, b, hab, rfl⟩ := (mem_interstorms_of_ok pick s j db c hc q).1 hq
  obtain ⟨l', _, q', hq', rfl⟩ := (mem_pairs_of_ok pick s j db c hc p).1 hp
  have e' : (esOf db l').getD q'.2.1 0 = (esOf db l).getD a 0 := e
  have r := interstorm_idx_range j db l a b hab
  have r' := rise_idx_range pick s j db l' q' hq'
  have hm1 := getD_mem (esOf db l) a 0 (by omega)
  have hm2 := getD_mem (esOf db l') q'.2.1 0 (by omega)
  rw [e'] at hm2
  have hll := samplesOf_epochs_disjoint db h l l' _ hm1 hm2
  subst hll
  have hidx := pairwise_lt_getD_inj _ (esOf_pairwise db h l) q'.2.1 a (by omega) (by omega) e'
  exact interstorm_start_ne_rise_start j db.step (zsOf db l) (rsOf db l) a b q'.2.1 q'.2.2 hab
    (idxPairs_sound pick _ _ q' hq').2.1 hidx.symm

theorem interval_rows_levels_of_ok (pick : List Nat → Nat) (s j : α) (db : Loaded α)
    (c : Classified) (hc : classifyAll pick s j db = .ok c) :
    (∀ q ∈ c.interstorms, db.level.any (fun z => z.1 == q.1) = true ∧
      db.level.any (fun z => z.1 == q.2) = true) ∧
    (∀ p ∈ c.pairs, db.level.any (fun z => z.1 == p.2.1) = true ∧
      db.level.any (fun z => z.1 == p.2.2) = true) := by
  constructor
  · intro q hq
    obtain ⟨l, _, a, b, hab, rfl⟩ := (mem_interstorms_of_ok pick s j db c hc q).1 hq
    have r := interstorm_idx_range j db l a b hab
    exact ⟨mem_esOf_level db l _ (getD_mem (esOf db l) a 0 (by omega)),
      mem_esOf_level db l _ (getD_mem (esOf db l) (b - 1) 0 (by omega))⟩
  · intro p hp
    obtain ⟨l, _, q, hq, rfl⟩ := (mem_pairs_of_ok pick s j db c hc p).1 hp
    have r := rise_idx_range pick s j db l q hq
    exact ⟨mem_esOf_level db l _ (getD_mem (esOf db l) q.2.1 0 (by omega)),
      mem_esOf_level db l _ (getD_mem (esOf db l) q.2.2 0 (by omega))⟩

end Spowtd
