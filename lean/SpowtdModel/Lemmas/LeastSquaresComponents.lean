import SpowtdModel.Lemmas.LeastSquaresSums
import Mathlib.Data.List.Perm.Basic
import Mathlib.Data.List.Pairwise
/-
  Helper lemmas for Props/C08 (part 4): invariants of the merge loop `components`.
-/
namespace Spowtd
namespace LS

abbrev Group := List Int × List Nat

/-- one round of the merge loop -/
def compStep (groups : List Group) (hl : Int × List (Nat × Rat)) : List Group :=
  let ser := seriesAt hl.2
  let hit := groups.filter (fun g => !disjointB ser g.2)
  let rest := groups.filter (fun g => disjointB ser g.2)
  rest ++ [(hl.1 :: hit.flatMap (·.1), hit.foldl (fun acc g => unionL acc g.2) ser)]

theorem components_eq (m : Mapping Rat) : components m = m.foldl compStep [] := rfl

theorem disjointB_iff (a b : List Nat) : disjointB a b = true ↔ ∀ x ∈ a, x ∉ b := by
  simp [disjointB, List.all_eq_true]

theorem disjointB_symm (a b : List Nat) (h : disjointB a b = true) : disjointB b a = true := by
  rw [disjointB_iff] at h ⊢
  intro x hx hx'
  exact h x hx' hx

/-- the series lists of two groups are disjoint -/
def Sep (g g' : Group) : Prop := disjointB g.2 g'.2 = true

theorem sep_of_pairwise (groups : List Group) (h : groups.Pairwise Sep) (g g' : Group)
    (hg : g ∈ groups) (hg' : g' ∈ groups) (hne : g ≠ g') : Sep g g' := by
  have : Std.Symm Sep := ⟨fun a b hab => disjointB_symm _ _ hab⟩
  exact h.forall hg hg' hne

theorem mem_unionFold (hit : List Group) (acc : List Nat) (x : Nat) :
    x ∈ hit.foldl (fun acc g => unionL acc g.2) acc ↔ x ∈ acc ∨ ∃ g ∈ hit, x ∈ g.2 := by
  induction hit generalizing acc with
  | nil => simp
  | cons g hit ih =>
    simp only [List.foldl_cons, ih, mem_unionL, List.mem_cons, exists_eq_or_imp]
    tauto

theorem mem_compStep (groups : List Group) (hl : Int × List (Nat × Rat)) (g : Group) :
    g ∈ compStep groups hl ↔
      (g ∈ groups ∧ disjointB (seriesAt hl.2) g.2 = true) ∨
      g = (hl.1 :: (groups.filter (fun g => !disjointB (seriesAt hl.2) g.2)).flatMap (·.1),
        (groups.filter (fun g => !disjointB (seriesAt hl.2) g.2)).foldl
          (fun acc g => unionL acc g.2) (seriesAt hl.2)) := by
  unfold compStep
  simp only [List.mem_append, List.mem_filter, List.mem_singleton]

theorem mem_hit (groups : List Group) (ser : List Nat) (g : Group) :
    g ∈ groups.filter (fun g => !disjointB ser g.2) ↔ g ∈ groups ∧ ¬ disjointB ser g.2 = true := by
  simp only [List.mem_filter, Bool.not_eq_true', Bool.not_eq_true]

/-- (b) the series lists of distinct groups stay disjoint -/
theorem step_pairwise (groups : List Group) (hl : Int × List (Nat × Rat))
    (h : groups.Pairwise Sep) : (compStep groups hl).Pairwise Sep := by
  unfold compStep
  dsimp only
  rw [List.pairwise_append]
  refine ⟨h.filter _, List.pairwise_singleton _ _, ?_⟩
  intro g hg g' hg'
  rw [List.mem_singleton] at hg'
  subst hg'
  rw [List.mem_filter] at hg
  obtain ⟨hg, hd⟩ := hg
  unfold Sep
  rw [disjointB_iff]
  intro x hx hx'
  rw [mem_unionFold] at hx'
  rcases hx' with hx' | ⟨g', hg', hx'⟩
  · exact (disjointB_iff _ _).1 hd x hx' hx
  · rw [mem_hit] at hg'
    have hne : g ≠ g' := by
      intro heq
      rw [heq] at hd
      exact hg'.2 hd
    have := sep_of_pairwise groups h g g' hg hg'.1 hne
    exact (disjointB_iff _ _).1 this x hx hx'

theorem fold_pairwise (m : Mapping Rat) (groups : List Group) (h : groups.Pairwise Sep) :
    (m.foldl compStep groups).Pairwise Sep := by
  induction m generalizing groups with
  | nil => exact h
  | cons hl m ih => exact ih _ (step_pairwise groups hl h)

theorem components_pairwise (m : Mapping Rat) : (components m).Pairwise Sep := by
  rw [components_eq]
  exact fold_pairwise m [] List.Pairwise.nil

/-- (a) the level lists of the groups are a rearrangement of the levels processed -/
theorem step_perm (groups : List Group) (hl : Int × List (Nat × Rat)) (P : Mapping Rat)
    (ha : (groups.flatMap (·.1)).Perm (P.map (·.1))) :
    ((compStep groups hl).flatMap (·.1)).Perm ((P ++ [hl]).map (·.1)) := by
  unfold compStep
  dsimp only
  rw [List.flatMap_append, List.map_append]
  simp only [List.flatMap_cons, List.flatMap_nil, List.append_nil, List.map_cons, List.map_nil]
  have h1 := (List.filter_append_perm (fun g : Group => disjointB (seriesAt hl.2) g.2)
    groups).flatMap_right (·.1)
  rw [List.flatMap_append] at h1
  have h2 := h1.trans ha
  -- rest ++ hl.1 :: hit  ~  hl.1 :: (rest ++ hit) ~ hl.1 :: P ~ P ++ [hl.1]
  refine List.perm_middle.trans ?_
  refine (List.Perm.cons hl.1 h2).trans ?_
  exact (List.perm_append_comm (l₁ := [hl.1]) (l₂ := P.map (·.1)))

/-- (c) the series list of a group contains the series of each of its levels -/
theorem step_cover (groups : List Group) (hl : Int × List (Nat × Rat)) (P : Mapping Rat)
    (hnd : ((P ++ [hl]).map (·.1)).Nodup)
    (ha : (groups.flatMap (·.1)).Perm (P.map (·.1)))
    (hc : ∀ hl' ∈ P, ∀ g ∈ groups, hl'.1 ∈ g.1 → ∀ s ∈ seriesAt hl'.2, s ∈ g.2) :
    ∀ hl' ∈ P ++ [hl], ∀ g ∈ compStep groups hl, hl'.1 ∈ g.1 →
      ∀ s ∈ seriesAt hl'.2, s ∈ g.2 := by
  have hfresh : hl.1 ∉ P.map (·.1) := by
    rw [List.map_append, List.nodup_append] at hnd
    intro hin
    exact hnd.2.2 hl.1 hin hl.1 (by simp) rfl
  have hfresh' : ∀ g ∈ groups, hl.1 ∉ g.1 := by
    intro g hg hin
    exact hfresh (ha.mem_iff.1 (List.mem_flatMap.2 ⟨g, hg, hin⟩))
  intro hl' hmem g hg hlev s hs
  rw [mem_compStep] at hg
  rcases List.mem_append.1 hmem with hP | hnew
  · rcases hg with ⟨hg, _⟩ | hg
    · exact hc hl' hP g hg hlev s hs
    · subst hg
      dsimp only at hlev ⊢
      rw [mem_unionFold]
      rcases List.mem_cons.1 hlev with heq | hin
      · exfalso
        apply hfresh
        rw [← heq]
        exact List.mem_map.2 ⟨hl', hP, rfl⟩
      · obtain ⟨g', hg', hin'⟩ := List.mem_flatMap.1 hin
        refine Or.inr ⟨g', hg', ?_⟩
        exact hc hl' hP g' ((mem_hit _ _ _).1 hg').1 hin' s hs
  · rw [List.mem_singleton] at hnew
    subst hnew
    rcases hg with ⟨hg, _⟩ | hg
    · exact absurd hlev (hfresh' g hg)
    · subst hg
      dsimp only
      rw [mem_unionFold]
      exact Or.inl hs

theorem fold_inv (m P : Mapping Rat) (groups : List Group)
    (hnd : ((P ++ m).map (·.1)).Nodup)
    (ha : (groups.flatMap (·.1)).Perm (P.map (·.1)))
    (hc : ∀ hl' ∈ P, ∀ g ∈ groups, hl'.1 ∈ g.1 → ∀ s ∈ seriesAt hl'.2, s ∈ g.2) :
    ((m.foldl compStep groups).flatMap (·.1)).Perm ((P ++ m).map (·.1)) ∧
    ∀ hl' ∈ P ++ m, ∀ g ∈ m.foldl compStep groups, hl'.1 ∈ g.1 →
      ∀ s ∈ seriesAt hl'.2, s ∈ g.2 := by
  induction m generalizing P groups with
  | nil =>
    rw [List.append_nil]
    exact ⟨ha, hc⟩
  | cons hl m ih =>
    have hsplit : P ++ hl :: m = (P ++ [hl]) ++ m := by simp
    rw [hsplit] at hnd ⊢
    have hnd' : ((P ++ [hl]).map (·.1)).Nodup := by
      rw [List.map_append] at hnd
      exact (List.nodup_append.1 hnd).1
    exact ih (P ++ [hl]) (compStep groups hl) hnd (step_perm groups hl P ha)
      (step_cover groups hl P hnd' ha hc)

theorem components_inv (m : Mapping Rat) (hnd : (m.map (·.1)).Nodup) :
    ((components m).flatMap (·.1)).Perm (m.map (·.1)) ∧
    ∀ hl' ∈ m, ∀ g ∈ components m, hl'.1 ∈ g.1 → ∀ s ∈ seriesAt hl'.2, s ∈ g.2 := by
  have := fold_inv m [] [] (by simpa using hnd) (by simp) (by intro hl' h; cases h)
  simpa [components_eq] using this

theorem components_part (m : Mapping Rat) (hnd : (m.map (·.1)).Nodup) :
    ((components m).flatMap (·.1)).Perm (m.map (·.1)) ∧
    ∀ hl ∈ m, ∀ hl' ∈ m, ¬ disjointB (seriesAt hl.2) (seriesAt hl'.2) = true →
      ∃ g ∈ components m, hl.1 ∈ g.1 ∧ hl'.1 ∈ g.1 := by
  obtain ⟨ha, hc⟩ := components_inv m hnd
  refine ⟨ha, ?_⟩
  intro hl hmem hl' hmem' hnd'
  rw [disjointB_iff] at hnd'
  have hex : ∃ x, x ∈ seriesAt hl.2 ∧ x ∈ seriesAt hl'.2 := by
    by_contra hno
    apply hnd'
    intro x hx hx'
    exact hno ⟨x, hx, hx'⟩
  obtain ⟨x, hx, hx'⟩ := hex
  obtain ⟨g, hg, hlg⟩ := List.mem_flatMap.1
    (ha.mem_iff.2 (List.mem_map.2 ⟨hl, hmem, rfl⟩))
  obtain ⟨g', hg', hlg'⟩ := List.mem_flatMap.1
    (ha.mem_iff.2 (List.mem_map.2 ⟨hl', hmem', rfl⟩))
  have hxg := hc hl hmem g hg hlg x hx
  have hxg' := hc hl' hmem' g' hg' hlg' x hx'
  by_cases heq : g = g'
  · subst heq
    exact ⟨g, hg, hlg, hlg'⟩
  · exfalso
    have := sep_of_pairwise _ (components_pairwise m) g g' hg hg' heq
    exact (disjointB_iff _ _).1 this x hxg hxg'

theorem components_sep (m : Mapping Rat) :
    ∀ g ∈ components m, ∀ g' ∈ components m, g ≠ g' → disjointB g.2 g'.2 = true :=
  fun g hg g' hg' hne => sep_of_pairwise _ (components_pairwise m) g g' hg hg' hne

end LS
end Spowtd
