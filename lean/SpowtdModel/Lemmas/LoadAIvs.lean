import SpowtdModel.Lemmas.LoadAGrid
/-
  Helper lemmas for Props/C10.lean (`load_establishes_wf`):
  gaps, valid intervals, labels, and interpolation inside the level span.
-/
namespace Spowtd
variable {α : Type}

theorem eq_of_map_eq_of_nodup {β γ : Type} (f : β → γ) {l : List β} (hn : (l.map f).Nodup)
    {a b : β} (ha : a ∈ l) (hb : b ∈ l) (hab : f a = f b) : a = b := by
  induction l with
  | nil => cases ha
  | cons x xs ih =>
    simp only [List.map_cons, List.nodup_cons, List.mem_map, not_exists, not_and] at hn
    rcases List.mem_cons.mp ha with rfl | ha'
    · rcases List.mem_cons.mp hb with rfl | hb'
      · rfl
      · exact absurd hab.symm (hn.1 b hb')
    · rcases List.mem_cons.mp hb with rfl | hb'
      · exact absurd hab (hn.1 a ha')
      · exact ih hn.2 ha' hb'

/-! ### gaps -/

theorem zip_tail_props : ∀ (zt : List Int), zt.Pairwise (· < ·) →
    (∀ p ∈ List.zip zt zt.tail, p.1 < p.2) ∧ (List.zip zt zt.tail).Pairwise (fun p q => p.1 < q.2)
  | [], _ => by simp
  | [_], _ => by simp
  | a :: b :: t, hp => by
    have hp' := List.pairwise_cons.mp hp
    obtain ⟨ih1, ih2⟩ := zip_tail_props (b :: t) hp'.2
    simp only [List.tail_cons] at ih1 ih2
    simp only [List.tail_cons, List.zip_cons_cons]
    have hq : ∀ q ∈ List.zip (b :: t) t, a < q.2 := by
      intro q hq
      have : q.2 ∈ t := (List.of_mem_zip (a := q.1) (b := q.2) hq).2
      exact hp'.1 q.2 (List.mem_cons_of_mem _ this)
    refine ⟨?_, List.pairwise_cons.mpr ⟨hq, ih2⟩⟩
    intro p hp
    rcases List.mem_cons.mp hp with rfl | hp
    · exact hp'.1 b List.mem_cons_self
    · exact ih1 p hp

theorem gapsOf_props (zt : List Int) (hz : zt.Pairwise (· < ·)) :
    (∀ p ∈ gapsOf zt, p.1 < p.2) ∧ (gapsOf zt).Pairwise (fun p q => p.1 < q.2) := by
  obtain ⟨h1, h2⟩ := zip_tail_props zt hz
  unfold gapsOf
  split
  · simp
  · exact ⟨fun p hp => h1 p (List.mem_filter.mp hp).1, h2.filter _⟩

/-! ### valid intervals -/

/-- the zip of interval starts and ends, by recursion on the gaps -/
def ivZip (first closing : Int) : List (Int × Int) → List (Int × Int)
  | [] => [(first, closing)]
  | p :: ps => (first, p.1) :: ivZip p.2 closing ps

theorem zip_starts_thrus (first closing : Int) (gaps : List (Int × Int)) :
    List.zip (first :: gaps.map (·.2)) (gaps.map (·.1) ++ [closing]) = ivZip first closing gaps := by
  induction gaps generalizing first with
  | nil => rfl
  | cons p ps ih =>
    simp only [List.map_cons, List.cons_append, List.zip_cons_cons, ivZip]
    rw [ih]

theorem validIntervals_eq (first closing : Int) (gaps : List (Int × Int)) :
    validIntervals first closing gaps =
      (ivZip first closing gaps).zipIdx.map (fun p => (p.1.1, p.1.2, p.2 + 1)) := by
  simp only [validIntervals, zip_starts_thrus]

theorem ivZip_fst (first closing : Int) (gaps : List (Int × Int)) (b : Int × Int)
    (hb : b ∈ ivZip first closing gaps) : b.1 = first ∨ ∃ q ∈ gaps, b.1 = q.2 := by
  induction gaps generalizing first with
  | nil =>
    simp only [ivZip, List.mem_singleton] at hb
    left; rw [hb]
  | cons p ps ih =>
    simp only [ivZip, List.mem_cons] at hb
    rcases hb with rfl | hb
    · left; rfl
    · right
      rcases ih p.2 hb with h | ⟨q, hq, h⟩
      · exact ⟨p, List.mem_cons_self, h⟩
      · exact ⟨q, List.mem_cons_of_mem _ hq, h⟩

theorem ivZip_sep (closing : Int) (gaps : List (Int × Int)) (h1 : ∀ p ∈ gaps, p.1 < p.2)
    (h2 : gaps.Pairwise (fun p q => p.1 < q.2)) (first : Int) :
    (ivZip first closing gaps).Pairwise (fun a b => a.2 < b.1) := by
  induction gaps generalizing first with
  | nil => simp [ivZip]
  | cons p ps ih =>
    have h2' := List.pairwise_cons.mp h2
    simp only [ivZip]
    refine List.pairwise_cons.mpr ⟨?_, ih (fun q hq => h1 q (List.mem_cons_of_mem _ hq)) h2'.2 p.2⟩
    intro b hb
    rcases ivZip_fst p.2 closing ps b hb with h | ⟨q, hq, h⟩
    · rw [h]; exact h1 p List.mem_cons_self
    · rw [h]; exact h2'.1 q hq

theorem validIntervals_sep (first closing : Int) (gaps : List (Int × Int))
    (h1 : ∀ p ∈ gaps, p.1 < p.2) (h2 : gaps.Pairwise (fun p q => p.1 < q.2)) :
    (validIntervals first closing gaps).Pairwise (fun a b => a.2.1 < b.1) := by
  rw [validIntervals_eq, List.pairwise_map]
  have h : ((ivZip first closing gaps).zipIdx.map Prod.fst).Pairwise (fun a b => a.2 < b.1) := by
    rw [List.zipIdx_map_fst]
    exact ivZip_sep closing gaps h1 h2 first
  exact List.pairwise_map.mp h

theorem validIntervals_labels_nodup (first closing : Int) (gaps : List (Int × Int)) :
    ((validIntervals first closing gaps).map (·.2.2)).Nodup := by
  rw [validIntervals_eq, List.map_map, List.nodup_iff_pairwise_ne, List.pairwise_map]
  have h : ((ivZip first closing gaps).zipIdx.map Prod.snd).Nodup := by
    rw [List.zipIdx_map_snd]
    exact List.nodup_range' 1
  rw [List.nodup_iff_pairwise_ne, List.pairwise_map] at h
  refine h.imp ?_
  intro a b hab
  simp only [Function.comp_apply]
  omega

/-! ### labels -/

theorem labelFold_none (g : Int) (ivs : List (Int × Int × Nat)) (acc : Option Nat)
    (h : ∀ iv ∈ ivs, ¬ (iv.1 ≤ g ∧ g ≤ iv.2.1)) :
    ivs.foldl (fun acc iv => if decide (iv.1 ≤ g) && decide (g ≤ iv.2.1) then some iv.2.2 else acc)
      acc = acc := by
  induction ivs generalizing acc with
  | nil => rfl
  | cons iv ivs ih =>
    have h0 : ¬ ((decide (iv.1 ≤ g) && decide (g ≤ iv.2.1)) = true) := by
      simpa using h iv List.mem_cons_self
    rw [List.foldl_cons, if_neg h0]
    exact ih acc (fun j hj => h j (List.mem_cons_of_mem _ hj))

theorem labelFold_some_inv (g : Int) (ivs : List (Int × Int × Nat)) (acc : Option Nat) (l : Nat)
    (h : ivs.foldl (fun acc iv => if decide (iv.1 ≤ g) && decide (g ≤ iv.2.1) then some iv.2.2 else acc)
      acc = some l) :
    acc = some l ∨ ∃ iv ∈ ivs, iv.1 ≤ g ∧ g ≤ iv.2.1 ∧ iv.2.2 = l := by
  induction ivs generalizing acc with
  | nil => exact Or.inl h
  | cons iv ivs ih =>
    rw [List.foldl_cons] at h
    rcases ih _ h with h' | ⟨j, hj, hj'⟩
    · by_cases hc : (decide (iv.1 ≤ g) && decide (g ≤ iv.2.1)) = true
      · rw [if_pos hc] at h'
        simp only [Bool.and_eq_true, decide_eq_true_eq] at hc
        exact Or.inr ⟨iv, List.mem_cons_self, hc.1, hc.2, by simpa using h'⟩
      · rw [if_neg hc] at h'
        exact Or.inl h'
    · exact Or.inr ⟨j, List.mem_cons_of_mem _ hj, hj'⟩

theorem labelOf_eq_some_iff {ivs : List (Int × Int × Nat)}
    (hsep : ivs.Pairwise (fun a b => a.2.1 < b.1)) (g : Int) (l : Nat) :
    labelOf ivs g = some l ↔ ∃ iv ∈ ivs, iv.1 ≤ g ∧ g ≤ iv.2.1 ∧ iv.2.2 = l := by
  unfold labelOf
  constructor
  · intro h
    rcases labelFold_some_inv g ivs none l h with h' | h'
    · cases h'
    · exact h'
  · rintro ⟨iv, hiv, h1, h2, h3⟩
    obtain ⟨s, t, rfl⟩ := List.append_of_mem hiv
    have hs := (List.pairwise_append.mp hsep).2.1
    have ht := (List.pairwise_cons.mp hs).1
    have hc : (decide (iv.1 ≤ g) && decide (g ≤ iv.2.1)) = true := by
      simp only [Bool.and_eq_true, decide_eq_true_eq]
      exact ⟨h1, h2⟩
    rw [List.foldl_append, List.foldl_cons, if_pos hc, labelFold_none, h3]
    intro j hj hj'
    have := ht j hj
    omega

/-- the instants carrying a given label form a convex set -/
theorem labelOf_convex {ivs : List (Int × Int × Nat)}
    (hsep : ivs.Pairwise (fun a b => a.2.1 < b.1)) (hnd : (ivs.map (·.2.2)).Nodup)
    {x y z : Int} {l : Nat} (hxy : x ≤ y) (hyz : y ≤ z)
    (hx : labelOf ivs x = some l) (hz : labelOf ivs z = some l) : labelOf ivs y = some l := by
  obtain ⟨iv, hiv, a1, _, a3⟩ := (labelOf_eq_some_iff hsep x l).mp hx
  obtain ⟨iv', hiv', _, b2, b3⟩ := (labelOf_eq_some_iff hsep z l).mp hz
  have : iv = iv' := eq_of_map_eq_of_nodup (·.2.2) hnd hiv hiv' (a3.trans b3.symm)
  subst this
  exact (labelOf_eq_some_iff hsep y l).mpr ⟨iv, hiv, by omega, by omega, a3⟩

/-! ### interpolation is defined on the whole span of the level record -/

theorem interp_isSome [Num α] : ∀ (zs : List (Int × α)) (x : Int),
    (∃ a, zs.head? = some a ∧ a.1 ≤ x) → (∃ z ∈ zs, x ≤ z.1) → (interp zs x).isSome = true
  | [], _, h, _ => by
    obtain ⟨a, ha, _⟩ := h
    cases ha
  | [a], x, h1, h2 => by
    obtain ⟨a', ha', h1⟩ := h1
    simp only [List.head?_cons, Option.some.injEq] at ha'
    subst ha'
    obtain ⟨z, hz, h2⟩ := h2
    simp only [List.mem_singleton] at hz
    subst hz
    have : (x == z.1) = true := by
      simp only [beq_iff_eq]
      omega
    simp only [interp, this, ↓reduceIte, Option.isSome_some]
  | a :: b :: rest, x, h1, h2 => by
    obtain ⟨a', ha', h1⟩ := h1
    simp only [List.head?_cons, Option.some.injEq] at ha'
    subst ha'
    obtain ⟨z, hz, h2⟩ := h2
    unfold interp
    have hlt : ¬ x < a.1 := by omega
    rw [if_neg hlt]
    by_cases he : (x == a.1) = true
    · rw [if_pos he]; rfl
    · rw [if_neg he]
      by_cases hb : x < b.1
      · rw [if_pos hb]; rfl
      · rw [if_neg hb]
        refine interp_isSome (b :: rest) x ⟨b, rfl, by omega⟩ ?_
        rcases List.mem_cons.mp hz with rfl | hz'
        · exfalso
          apply he
          simp only [beq_iff_eq]
          omega
        · exact ⟨z, hz', h2⟩

theorem interp_sortRows_isSome [Num α] (level : List (Int × α)) (x : Int)
    (h1 : ∃ z ∈ level, z.1 ≤ x) (h2 : ∃ z ∈ level, x ≤ z.1) :
    (interp (sortRows level) x).isSome = true := by
  obtain ⟨z, hz, hzx⟩ := h1
  obtain ⟨z', hz', hxz'⟩ := h2
  apply interp_isSome
  · have hm : z ∈ sortRows level := mem_sortRows.mpr hz
    have hs := sortRows_sorted level
    cases hsr : sortRows level with
    | nil => rw [hsr] at hm; cases hm
    | cons a t =>
      rw [hsr] at hm hs
      refine ⟨a, rfl, ?_⟩
      rcases List.mem_cons.mp hm with rfl | hm'
      · exact hzx
      · have := (List.pairwise_cons.mp hs).1 z hm'
        omega
  · exact ⟨z', mem_sortRows.mpr hz', hxz'⟩

end Spowtd
