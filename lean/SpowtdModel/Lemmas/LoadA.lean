import SpowtdModel.Model.Load
import SpowtdModel.Lemmas.LoadASort
import SpowtdModel.Lemmas.LoadAGrid
import SpowtdModel.Lemmas.LoadAZone
import SpowtdModel.Lemmas.LoadAIvs
import SpowtdModel.Lemmas.LoadAWf
/- Helper lemmas for Props/C10.lean and Props/C11.lean (see the LoadA*.lean files). -/
namespace Spowtd

/-- Boolean check of an accepted result (used by the non-vacuity examples) -/
def okAnd {ε β : Type} (x : Except ε β) (P : β → Bool) : Bool :=
  match x with
  | .ok d => P d
  | .error _ => false

/-- Boolean check of a refusal (used by the non-vacuity examples) -/
def refusedWith {β : Type} (x : Except LoadErr β) (e : LoadErr) : Bool :=
  match x with
  | .ok _ => false
  | .error e' => e' == e

theorem exists_ok_of_okAnd {ε β : Type} {x : Except ε β} {P : β → Bool}
    (h : okAnd x P = true) : ∃ d, x = .ok d ∧ P d = true := by
  cases x with
  | error e => cases h
  | ok d => exact ⟨d, rfl, h⟩

theorem eq_error_of_refusedWith {β : Type} {x : Except LoadErr β} {e : LoadErr}
    (h : refusedWith x e = true) : x = .error e := by
  cases x with
  | ok d => cases h
  | error e' =>
    simp only [refusedWith, beq_iff_eq] at h
    rw [h]

end Spowtd
