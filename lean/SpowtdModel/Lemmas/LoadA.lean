import SpowtdModel.Model.Load
/- Helper lemmas for Props/C10.lean and Props/C11.lean. -/
namespace Spowtd
end Spowtd
