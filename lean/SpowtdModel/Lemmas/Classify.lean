import SpowtdModel.Model.Classify
import SpowtdModel.Lemmas.ClassifyBasic
import SpowtdModel.Lemmas.ClassifyData
import SpowtdModel.Lemmas.ClassifyGS
/- Helper lemmas for the classify-level theorems (Props/C01, C02Classify, C03Classify, C04Classify, C07).
   The index-level material is in `ClassifyBasic`/`ClassifyGS`, the dataset plumbing in `ClassifyData`;
   this file combines them: a stretch's recorded rows in terms of its runs, index ranges, the shift. -/
namespace Spowtd

variable {α : Type} [Num α]

/-- epochs, levels, rain of one stretch -/
def esOf (db : Loaded α) (l : Nat) : List Int := (samplesOf db l).map (·.1)
def zsOf (db : Loaded α) (l : Nat) : List α := (samplesOf db l).map (·.2.1)
def rsOf (db : Loaded α) (l : Nat) : List α := (samplesOf db l).map (·.2.2)

omit [Num α] in
theorem esOf_length (db : Loaded α) (l : Nat) : (esOf db l).length = (samplesOf db l).length :=
  List.length_map _
omit [Num α] in
theorem zsOf_length (db : Loaded α) (l : Nat) : (zsOf db l).length = (samplesOf db l).length :=
  List.length_map _
omit [Num α] in
theorem rsOf_length (db : Loaded α) (l : Nat) : (rsOf db l).length = (samplesOf db l).length :=
  List.length_map _

/-! ### index ranges -/

theorem idxPairs_range (pick : List Nat → Nat) (s j : α) (dt : Int) (zeta rain : List α)
    (q : (Nat × Nat) × (Nat × Nat)) (hq : q ∈ idxPairs pick (heavy s rain) (jumps j dt zeta)) :
    q.1.1 < q.1.2 ∧ q.1.2 ≤ rain.length ∧ q.2.1 < q.2.2 ∧ q.2.2 < zeta.length := by
  obtain ⟨h1, h2, _⟩ := idxPairs_sound pick _ _ q hq
  have a1 := (mem_trueRuns _ q.1.1 q.1.2).1 h1
  have a2 := (mem_trueRuns _ q.2.1 q.2.2).1 h2
  rw [heavy_length] at a1
  rw [jumps_length] at a2
  omega

theorem interstorms_range (fj w : List Bool) (ab : Nat × Nat) (h : ab ∈ interstormRuns fj w) :
    ab.1 + 2 ≤ ab.2 ∧ ab.2 ≤ min fj.length w.length := by
  have := (mem_interstormRuns fj w ab.1 ab.2).1 h
  rw [interstormFlag_length] at this
  exact ⟨this.1, this.2.1⟩

/-! ### the rows of one stretch -/

theorem stretchOf_flags (pick : List Nat → Nat) (s j : α) (db : Loaded α) (l : Nat) :
    (stretchOf pick s j db l).flags =
      List.zipWith (fun t f => (t, f)) (esOf db l)
        (classifyIdx pick s j db.step (zsOf db l) (rsOf db l)).flags := rfl

theorem stretchOf_interstorms (pick : List Nat → Nat) (s j : α) (db : Loaded α) (l : Nat) :
    (stretchOf pick s j db l).interstorms =
      (interstormRuns (flagJump j db.step (zsOf db l)) (wet (rsOf db l))).map
        (fun ab => ((esOf db l).getD ab.1 0, (esOf db l).getD (ab.2 - 1) 0)) := rfl

theorem stretchOf_pairs (pick : List Nat → Nat) (s j : α) (db : Loaded α) (l : Nat) :
    (stretchOf pick s j db l).pairs =
      (idxPairs pick (heavy s (rsOf db l)) (jumps j db.step (zsOf db l))).map
        (fun p => (((esOf db l).getD p.1.1 0, (esOf db l).getD (p.1.2 - 1) 0 + db.step),
                   ((esOf db l).getD p.2.1 0, (esOf db l).getD p.2.2 0))) := rfl

theorem stretchOf_strict (pick : List Nat → Nat) (s j : α) (db : Loaded α) (l : Nat) :
    (stretchOf pick s j db l).strict =
      (classifyIdx pick s j db.step (zsOf db l) (rsOf db l)).strict := rfl

theorem classifyStretch_eq (pick : List Nat → Nat) (s j : α) (db : Loaded α) (l : Nat) :
    classifyStretch pick s j db l =
      if (samplesOf db l).isEmpty then .error .noSamples
      else if !uniformB (esOf db l) then .error .nonuniform
      else .ok (stretchOf pick s j db l) := rfl

/-! ### shift -/

omit [Num α] in
theorem esOf_shift (db : Loaded α) (k : Int) (l : Nat) :
    esOf (db.shift k) l = (esOf db l).map (· + k) := by
  unfold esOf
  rw [samplesOf_shift, List.map_map, List.map_map]
  rfl

omit [Num α] in
theorem zsOf_shift (db : Loaded α) (k : Int) (l : Nat) : zsOf (db.shift k) l = zsOf db l := by
  unfold zsOf
  rw [samplesOf_shift, List.map_map]
  rfl

omit [Num α] in
theorem rsOf_shift (db : Loaded α) (k : Int) (l : Nat) : rsOf (db.shift k) l = rsOf db l := by
  unfold rsOf
  rw [samplesOf_shift, List.map_map]
  rfl

theorem getD_shift (es : List Int) (k : Int) (i : Nat) (hi : i < es.length) :
    (es.map (· + k)).getD i 0 = es.getD i 0 + k :=
  getD_map_of_lt (· + k) es i 0 0 hi

theorem stretchOf_shift (pick : List Nat → Nat) (s j : α) (db : Loaded α) (k : Int) (l : Nat) :
    stretchOf pick s j (db.shift k) l = (stretchOf pick s j db l).shift k := by
  have hn1 : (zsOf db l).length = (esOf db l).length := by rw [zsOf_length, esOf_length]
  have hn2 : (rsOf db l).length = (esOf db l).length := by rw [rsOf_length, esOf_length]
  apply classified_ext
  · rw [stretchOf_flags, esOf_shift, zsOf_shift, rsOf_shift]
    show _ = List.map _ (stretchOf pick s j db l).flags
    rw [stretchOf_flags, List.zipWith_map_left, List.map_zipWith]
    rfl
  · rw [stretchOf_interstorms, esOf_shift, zsOf_shift, rsOf_shift]
    show _ = List.map _ (stretchOf pick s j db l).interstorms
    rw [stretchOf_interstorms, List.map_map]
    apply List.map_congr_left
    intro ab hab
    have := interstorms_range _ _ ab hab
    rw [flagJump_length, wet_length] at this
    show (_, _) = (_, _)
    rw [getD_shift _ _ _ (by omega), getD_shift _ _ _ (by omega)]
  · rw [stretchOf_pairs, esOf_shift, zsOf_shift, rsOf_shift]
    show _ = List.map _ (stretchOf pick s j db l).pairs
    rw [stretchOf_pairs, List.map_map]
    apply List.map_congr_left
    intro q hq
    have := idxPairs_range pick s j _ _ _ q hq
    show ((_, _), (_, _)) = ((_, _), (_, _))
    rw [getD_shift _ _ _ (by omega), getD_shift _ _ _ (by omega), getD_shift _ _ _ (by omega),
      getD_shift _ _ _ (by omega)]
    show _ = ((_, _ + db.step + k), _)
    rw [Int.add_right_comm]
    rfl
  · rw [stretchOf_strict, zsOf_shift, rsOf_shift]
    rfl

theorem classifyStretch_shift (pick : List Nat → Nat) (s j : α) (db : Loaded α) (k : Int) (l : Nat) :
    classifyStretch pick s j (db.shift k) l =
      (classifyStretch pick s j db l).map (fun c : Classified => c.shift k) := by
  rw [classifyStretch_eq, classifyStretch_eq, stretchOf_shift, esOf_shift, uniformB_shift,
    samplesOf_shift, List.isEmpty_map]
  cases (samplesOf db l).isEmpty with
  | true => rfl
  | false =>
    cases uniformB (esOf db l) with
    | true => rfl
    | false => rfl

theorem classifyAll_shift (pick : List Nat → Nat) (s j : α) (db : Loaded α) (k : Int) :
    classifyAll pick s j (db.shift k) =
      (classifyAll pick s j db).map (fun c : Classified => c.shift k) := by
  unfold classifyAll
  rw [labelsOf_shift]
  show (if (labelsOf db).isEmpty = true then _ else _) =
    Except.map _ (if (labelsOf db).isEmpty = true then _ else _)
  cases (labelsOf db).isEmpty with
  | true => rfl
  | false =>
    exact foldlM_shift _ _ k (classifyStretch_shift pick s j db k) (labelsOf db)
      { flags := [], interstorms := [], pairs := [], strict := true }

/-! ### monotone epochs -/

omit [Num α] in
theorem esOf_pairwise (db : Loaded α) (h : wellFormedLoadedB db = true) (l : Nat) :
    (esOf db l).Pairwise (· < ·) := samplesOf_epochs_pairwise db h l

theorem pairwise_lt_getD_lt (l : List Int) (h : l.Pairwise (· < ·)) (i k : Nat) (hik : i < k)
    (hk : k < l.length) : l.getD i 0 < l.getD k 0 := by
  rw [List.getD_eq_getElem?_getD, List.getD_eq_getElem?_getD,
    List.getElem?_eq_getElem (Nat.lt_trans hik hk), List.getElem?_eq_getElem hk]
  exact (List.pairwise_iff_getElem.1 h) i k _ hk hik

theorem pairwise_lt_getD_le (l : List Int) (h : l.Pairwise (· < ·)) (i k : Nat) (hik : i ≤ k)
    (hk : k < l.length) : l.getD i 0 ≤ l.getD k 0 := by
  rcases Nat.lt_or_eq_of_le hik with h1 | rfl
  · exact Int.le_of_lt (pairwise_lt_getD_lt l h i k h1 hk)
  · exact Int.le_refl _

theorem stepped_succ (dt : Int) (l : List Int) (h : steppedB dt l = true) (i : Nat)
    (hi : i + 1 < l.length) : l.getD (i + 1) 0 = l.getD i 0 + dt := by
  rw [steppedB_getD dt l h (i + 1) hi, steppedB_getD dt l h i (by omega)]
  have : ((i + 1 : Nat) : Int) * dt = (i : Int) * dt + dt := by
    rw [Int.natCast_add, Int.add_mul]; simp
  rw [this]
  omega

/-! ### dataset-level membership -/

theorem mem_pairs_of_ok (pick : List Nat → Nat) (s j : α) (db : Loaded α) (c : Classified)
    (hc : classifyAll pick s j db = .ok c) (p : (Int × Int) × (Int × Int)) :
    p ∈ c.pairs ↔
      ∃ l ∈ labelsOf db, ∃ q ∈ idxPairs pick (heavy s (rsOf db l)) (jumps j db.step (zsOf db l)),
        p = (((esOf db l).getD q.1.1 0, (esOf db l).getD (q.1.2 - 1) 0 + db.step),
             ((esOf db l).getD q.2.1 0, (esOf db l).getD q.2.2 0)) := by
  obtain ⟨_, _, _, _, h, _⟩ := (classifyAll_ok_iff pick s j db c).1 hc
  rw [h, List.mem_flatMap]
  constructor
  · rintro ⟨l, hl, hp⟩
    rw [stretchOf_pairs, List.mem_map] at hp
    obtain ⟨q, hq, rfl⟩ := hp
    exact ⟨l, hl, q, hq, rfl⟩
  · rintro ⟨l, hl, q, hq, rfl⟩
    refine ⟨l, hl, ?_⟩
    rw [stretchOf_pairs, List.mem_map]
    exact ⟨q, hq, rfl⟩

theorem mem_interstorms_of_ok (pick : List Nat → Nat) (s j : α) (db : Loaded α) (c : Classified)
    (hc : classifyAll pick s j db = .ok c) (q : Int × Int) :
    q ∈ c.interstorms ↔
      ∃ l ∈ labelsOf db, ∃ a b,
        (a, b) ∈ interstormRuns (flagJump j db.step (zsOf db l)) (wet (rsOf db l)) ∧
        q = ((esOf db l).getD a 0, (esOf db l).getD (b - 1) 0) := by
  obtain ⟨_, _, _, h, _, _⟩ := (classifyAll_ok_iff pick s j db c).1 hc
  rw [h, List.mem_flatMap]
  constructor
  · rintro ⟨l, hl, hp⟩
    rw [stretchOf_interstorms, List.mem_map] at hp
    obtain ⟨⟨a, b⟩, hab, rfl⟩ := hp
    exact ⟨l, hl, a, b, hab, rfl⟩
  · rintro ⟨l, hl, a, b, hab, rfl⟩
    refine ⟨l, hl, ?_⟩
    rw [stretchOf_interstorms, List.mem_map]
    exact ⟨(a, b), hab, rfl⟩

theorem classifyAll_total (pick : List Nat → Nat) (s j : α) (db : Loaded α)
    (h : wellFormedLoadedB db = true) : ∃ c, classifyAll pick s j db = .ok c := by
  obtain ⟨_, _, h3, _, h5⟩ := (wellFormed_iff db).1 h
  refine ⟨{ flags := _, interstorms := _, pairs := _, strict := _ },
    (classifyAll_ok_iff pick s j db _).2 ⟨h3, ?_, rfl, rfl, rfl, rfl⟩⟩
  intro l hl
  exact ⟨samplesOf_ne_nil db h l hl, steppedB_uniformB db.step _ (h5 l hl)⟩

/-! ### dataset-level pairing -/

theorem pairs_nodup_of_ok (pick : List Nat → Nat) (s j : α) (db : Loaded α)
    (h : wellFormedLoadedB db = true) (c : Classified) (hc : classifyAll pick s j db = .ok c) :
    (c.pairs.map (·.1.1)).Nodup ∧ (c.pairs.map (·.2.1)).Nodup := by
  obtain ⟨_, _, _, _, hp, _⟩ := (classifyAll_ok_iff pick s j db c).1 hc
  have hlab : (labelsOf db).Pairwise (· ≠ ·) := labelsOf_nodup db
  rw [hp, List.map_flatMap, List.map_flatMap]
  -- a start epoch of a stretch is one of its sample epochs
  have hmem1 : ∀ l x, x ∈ ((stretchOf pick s j db l).pairs.map (·.1.1)) → x ∈ esOf db l := by
    intro l x hx
    rw [stretchOf_pairs, List.map_map, List.mem_map] at hx
    obtain ⟨q, hq, rfl⟩ := hx
    have := idxPairs_range pick s j _ _ _ q hq
    rw [rsOf_length, ← esOf_length] at this
    exact getD_mem _ _ _ (by omega)
  have hmem2 : ∀ l x, x ∈ ((stretchOf pick s j db l).pairs.map (·.2.1)) → x ∈ esOf db l := by
    intro l x hx
    rw [stretchOf_pairs, List.map_map, List.mem_map] at hx
    obtain ⟨q, hq, rfl⟩ := hx
    have := idxPairs_range pick s j _ _ _ q hq
    rw [zsOf_length, ← esOf_length] at this
    exact getD_mem _ _ _ (by omega)
  have hcross : ∀ (f : Nat → List Int), (∀ l x, x ∈ f l → x ∈ esOf db l) →
      (labelsOf db).Pairwise (fun l₁ l₂ => ∀ x ∈ f l₁, ∀ y ∈ f l₂, x ≠ y) := by
    intro f hf
    refine hlab.imp ?_
    intro l₁ l₂ hne x hx y hy e
    subst e
    exact hne (samplesOf_epochs_disjoint db h l₁ l₂ x (hf _ _ hx) (hf _ _ hy))
  constructor
  · refine List.pairwise_flatMap.2 ⟨?_, hcross _ hmem1⟩
    intro l _
    rw [stretchOf_pairs, List.map_map]
    have hnd := (idxPairs_nodup pick (heavy s (rsOf db l)) (jumps j db.step (zsOf db l))).1
    have hnd' := List.pairwise_map.1 hnd
    refine List.pairwise_map.2 (hnd'.imp_of_mem ?_)
    intro q q' hq hq' hne e
    apply hne
    have r1 := idxPairs_range pick s j _ _ _ q hq
    have r2 := idxPairs_range pick s j _ _ _ q' hq'
    rw [rsOf_length, ← esOf_length] at r1 r2
    have := pairwise_lt_getD_inj _ (esOf_pairwise db h l) q.1.1 q'.1.1 (by omega)
      (by omega) e
    exact trueRuns_start_inj' _ _ _ (idxPairs_sound pick _ _ q hq).1
      (idxPairs_sound pick _ _ q' hq').1 this
  · refine List.pairwise_flatMap.2 ⟨?_, hcross _ hmem2⟩
    intro l _
    rw [stretchOf_pairs, List.map_map]
    have hnd := (idxPairs_nodup pick (heavy s (rsOf db l)) (jumps j db.step (zsOf db l))).2
    have hnd' := List.pairwise_map.1 hnd
    refine List.pairwise_map.2 (hnd'.imp_of_mem ?_)
    intro q q' hq hq' hne e
    apply hne
    have r1 := idxPairs_range pick s j _ _ _ q hq
    have r2 := idxPairs_range pick s j _ _ _ q' hq'
    rw [zsOf_length, ← esOf_length] at r1 r2
    have := pairwise_lt_getD_inj _ (esOf_pairwise db h l) q.2.1 q'.2.1 (by omega)
      (by omega) e
    exact trueRuns_start_inj' _ _ _ (idxPairs_sound pick _ _ q hq).2.1
      (idxPairs_sound pick _ _ q' hq').2.1 this

theorem pairs_overlap_of_ok (pick : List Nat → Nat) (s j : α) (db : Loaded α)
    (h : wellFormedLoadedB db = true) (c : Classified) (hc : classifyAll pick s j db = .ok c)
    (p : (Int × Int) × (Int × Int)) (hp : p ∈ c.pairs) :
    p.1.1 < p.1.2 ∧ p.2.1 < p.2.2 ∧
    ∃ t, p.1.1 ≤ t ∧ t + db.step ≤ p.1.2 ∧ p.2.1 ≤ t ∧ t + db.step ≤ p.2.2 := by
  obtain ⟨l, hl, q, hq, rfl⟩ := (mem_pairs_of_ok pick s j db c hc p).1 hp
  obtain ⟨hstep, _, _, _, h5⟩ := (wellFormed_iff db).1 h
  have hst : steppedB db.step (esOf db l) = true := h5 l hl
  have hpw := esOf_pairwise db h l
  have r := idxPairs_range pick s j _ _ _ q hq
  rw [rsOf_length, ← esOf_length, zsOf_length, ← esOf_length] at r
  obtain ⟨i, i1, i2, i3, i4⟩ := (overlaps_iff' _ _).1 (idxPairs_sound pick _ _ q hq).2.2
  have e1 := pairwise_lt_getD_le _ hpw q.1.1 (q.1.2 - 1) (by omega) (by omega)
  have e2 := pairwise_lt_getD_lt _ hpw q.2.1 q.2.2 (by omega) (by omega)
  have e3 := pairwise_lt_getD_le _ hpw q.1.1 i (by omega) (by omega)
  have e4 := pairwise_lt_getD_le _ hpw i (q.1.2 - 1) (by omega) (by omega)
  have e5 := pairwise_lt_getD_le _ hpw q.2.1 i (by omega) (by omega)
  have e6 := pairwise_lt_getD_le _ hpw (i + 1) q.2.2 (by omega) (by omega)
  have e7 := stepped_succ db.step _ hst i (by omega)
  refine ⟨?_, e2, (esOf db l).getD i 0, e3, ?_, e5, ?_⟩
  · show (esOf db l).getD q.1.1 0 < (esOf db l).getD (q.1.2 - 1) 0 + db.step
    omega
  · show _ ≤ (esOf db l).getD (q.1.2 - 1) 0 + db.step
    omega
  · show _ ≤ (esOf db l).getD q.2.2 0
    omega

/-! ### a small dataset for the non-vacuity examples of the property files

Hourly grid, exact arithmetic (`Rat`).  Stretch 0: six samples from epoch 0; rain 5 mm/h on the
steps starting at 3600 and 7200; the level rises by 4 between 3600 and 7200 and is flat afterwards.
One grid instant without data (21600).  Stretch 1: three samples from 25200; rain 6 and 7 on the
first two steps; the level rises by 6 between 28800 and 32400. -/
namespace Example

def db : Loaded Rat where
  step := 3600
  grid := [(0, some 0), (3600, some 0), (7200, some 0), (10800, some 0), (14400, some 0),
           (18000, some 0), (21600, none), (25200, some 1), (28800, some 1), (32400, some 1)]
  rain := [(0, 3600, 0), (3600, 7200, 5), (7200, 10800, 5), (10800, 14400, 0), (14400, 18000, 0),
           (18000, 21600, 0), (25200, 28800, 6), (28800, 32400, 7), (32400, 36000, 0)]
  et := []
  level := [(0, 10), (3600, 10), (7200, 14), (10800, 14), (14400, 14), (18000, 14),
            (25200, 3), (28800, 3), (32400, 9)]

/-- heavy-rain threshold (mm/h) and rise threshold (mm/h) -/
def s : Rat := 4
def j : Rat := 1

/-- two schedules: first / last storm of the pool -/
def pickFirst : List Nat → Nat := fun _ => 0
def pickLast : List Nat → Nat := fun l => l.length - 1

/-- the same dataset without its grid labels: not well formed, `classifyAll` refuses -/
def dbNoLabels : Loaded Rat := { db with grid := db.grid.map (fun g => (g.1, none)) }

end Example

end Spowtd
