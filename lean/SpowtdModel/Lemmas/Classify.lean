import SpowtdModel.Model.Classify
/- Helper lemmas for the classify-level theorems (Props/C01, C02Classify, C03Classify, C04Classify, C07). -/
namespace Spowtd

end Spowtd
