import SpowtdModel.Lemmas.LeastSquaresComponents
import Mathlib.Logic.Relation
import Mathlib.Data.List.Induction
/-
  Helper lemmas for Props/C08Components: every group built by the merge loop `components` is
  connected (its series are pairwise linked by chains of shared levels of that group), its series
  list is exactly the set of series of its levels, and `mainComponent` keeps the first group with
  the most levels.
-/
namespace Spowtd
namespace LS

/-! ### Links inside a set of levels -/

/-- `s` and `t` share a level of `P` whose id is in `L` (this is `Shares (restrictTo P L)`) -/
def Link (P : Mapping Rat) (L : List Int) (s t : Nat) : Prop :=
  ∃ hl ∈ P, hl.1 ∈ L ∧ s ∈ seriesAt hl.2 ∧ t ∈ seriesAt hl.2

theorem link_symm (P : Mapping Rat) (L : List Int) (s t : Nat) (h : Link P L s t) :
    Link P L t s := by
  obtain ⟨hl, hmem, hL, hs, ht⟩ := h
  exact ⟨hl, hmem, hL, ht, hs⟩

theorem link_mono (P P' : Mapping Rat) (L L' : List Int) (hP : ∀ hl ∈ P, hl ∈ P')
    (hL : ∀ l ∈ L, l ∈ L') (s t : Nat) (h : Link P L s t) : Link P' L' s t := by
  obtain ⟨hl, hmem, hlL, hs, ht⟩ := h
  exact ⟨hl, hP hl hmem, hL _ hlL, hs, ht⟩

theorem chain_mono (P P' : Mapping Rat) (L L' : List Int) (hP : ∀ hl ∈ P, hl ∈ P')
    (hL : ∀ l ∈ L, l ∈ L') (s t : Nat) (h : Relation.ReflTransGen (Link P L) s t) :
    Relation.ReflTransGen (Link P' L') s t :=
  Relation.ReflTransGen.mono (fun a b hab => link_mono P P' L L' hP hL a b hab) s t h

theorem chain_symm (P : Mapping Rat) (L : List Int) (s t : Nat)
    (h : Relation.ReflTransGen (Link P L) s t) : Relation.ReflTransGen (Link P L) t s := by
  induction h with
  | refl => exact Relation.ReflTransGen.refl
  | tail _ hbc ih => exact (Relation.ReflTransGen.single (link_symm P L _ _ hbc)).trans ih

theorem mem_restrictTo (m : Mapping Rat) (L : List Int) (hl : Int × List (Nat × Rat)) :
    hl ∈ restrictTo m L ↔ hl ∈ m ∧ hl.1 ∈ L := by
  unfold restrictTo
  simp only [List.mem_filter, List.contains_iff_mem]

theorem shares_restrictTo (m : Mapping Rat) (L : List Int) (s t : Nat) :
    Shares (restrictTo m L) s t ↔ Link m L s t := by
  unfold Shares Link
  constructor
  · rintro ⟨hl, hmem, hs, ht⟩
    rw [mem_restrictTo] at hmem
    exact ⟨hl, hmem.1, hmem.2, hs, ht⟩
  · rintro ⟨hl, hmem, hL, hs, ht⟩
    exact ⟨hl, (mem_restrictTo m L hl).2 ⟨hmem, hL⟩, hs, ht⟩

/-! ### The invariant of the merge loop -/

/-- what is known of one group after the levels `P` have been processed -/
structure GInv (P : Mapping Rat) (g : Group) : Prop where
  ne : g.1 ≠ []
  lev : ∀ l ∈ g.1, l ∈ P.map (·.1)
  ser : ∀ s, s ∈ g.2 ↔ ∃ hl ∈ P, hl.1 ∈ g.1 ∧ s ∈ seriesAt hl.2
  conn : ∀ s ∈ g.2, ∀ t ∈ g.2, Relation.ReflTransGen (Link P g.1) s t

theorem exists_common (a b : List Nat) (h : ¬ disjointB a b = true) : ∃ x, x ∈ a ∧ x ∈ b := by
  rw [disjointB_iff] at h
  by_contra hno
  apply h
  intro x hx hx'
  exact hno ⟨x, hx, hx'⟩

theorem step_ginv (groups : List Group) (hl : Int × List (Nat × Rat)) (P : Mapping Rat)
    (hfresh : hl.1 ∉ P.map (·.1)) (h : ∀ g ∈ groups, GInv P g) :
    ∀ g ∈ compStep groups hl, GInv (P ++ [hl]) g := by
  have hsub : ∀ x ∈ P, x ∈ P ++ [hl] := fun x hx => List.mem_append_left _ hx
  intro g hg
  rw [mem_compStep] at hg
  rcases hg with ⟨hg, _⟩ | hg
  · -- an untouched group
    have hi := h g hg
    have hnot : hl.1 ∉ g.1 := fun hin => hfresh (hi.lev _ hin)
    refine ⟨hi.ne, ?_, ?_, ?_⟩
    · intro l hlg
      rw [List.map_append]
      exact List.mem_append_left _ (hi.lev l hlg)
    · intro s
      rw [hi.ser s]
      constructor
      · rintro ⟨hl', hmem, hL, hs⟩
        exact ⟨hl', hsub _ hmem, hL, hs⟩
      · rintro ⟨hl', hmem, hL, hs⟩
        rcases List.mem_append.1 hmem with hP | hnew
        · exact ⟨hl', hP, hL, hs⟩
        · rw [List.mem_singleton] at hnew
          subst hnew
          exact absurd hL hnot
    · intro s hs t ht
      exact chain_mono P _ g.1 g.1 hsub (fun _ hx => hx) s t (hi.conn s hs t ht)
  · -- the merged group
    subst hg
    have hhit : ∀ g' ∈ groups.filter (fun g => !disjointB (seriesAt hl.2) g.2),
        g' ∈ groups ∧ ¬ disjointB (seriesAt hl.2) g'.2 = true :=
      fun g' hg' => (mem_hit _ _ _).1 hg'
    -- every series of the merged group is linked to a series of the new level
    have hhub : ∀ s, s ∈ (groups.filter (fun g => !disjointB (seriesAt hl.2) g.2)).foldl
          (fun acc g => unionL acc g.2) (seriesAt hl.2) →
        ∃ x ∈ seriesAt hl.2, Relation.ReflTransGen (Link (P ++ [hl])
          (hl.1 :: (groups.filter (fun g => !disjointB (seriesAt hl.2) g.2)).flatMap (·.1))) s x := by
      intro s hs
      rw [mem_unionFold] at hs
      rcases hs with hs | ⟨g', hg', hs⟩
      · exact ⟨s, hs, Relation.ReflTransGen.refl⟩
      · obtain ⟨hgm, hnd⟩ := hhit g' hg'
        obtain ⟨x, hx, hx'⟩ := exists_common _ _ hnd
        refine ⟨x, hx, ?_⟩
        refine chain_mono P _ g'.1 _ hsub ?_ s x ((h g' hgm).conn s hs x hx')
        intro l hlg
        exact List.mem_cons_of_mem _ (List.mem_flatMap.2 ⟨g', hg', hlg⟩)
    refine ⟨by simp, ?_, ?_, ?_⟩
    · intro l hlg
      dsimp only at hlg
      rw [List.map_append]
      rcases List.mem_cons.1 hlg with heq | hin
      · subst heq
        exact List.mem_append_right _ (by simp)
      · obtain ⟨g', hg', hin'⟩ := List.mem_flatMap.1 hin
        exact List.mem_append_left _ ((h g' (hhit g' hg').1).lev l hin')
    · intro s
      dsimp only
      rw [mem_unionFold]
      constructor
      · rintro (hs | ⟨g', hg', hs⟩)
        · exact ⟨hl, by simp, by simp, hs⟩
        · obtain ⟨hl', hmem, hL, hs'⟩ := ((h g' (hhit g' hg').1).ser s).1 hs
          exact ⟨hl', hsub _ hmem, List.mem_cons_of_mem _ (List.mem_flatMap.2 ⟨g', hg', hL⟩), hs'⟩
      · rintro ⟨hl', hmem, hL, hs⟩
        rcases List.mem_append.1 hmem with hP | hnew
        · rcases List.mem_cons.1 hL with heq | hin
          · exfalso
            apply hfresh
            rw [← heq]
            exact List.mem_map.2 ⟨hl', hP, rfl⟩
          · obtain ⟨g', hg', hin'⟩ := List.mem_flatMap.1 hin
            exact Or.inr ⟨g', hg', ((h g' (hhit g' hg').1).ser s).2 ⟨hl', hP, hin', hs⟩⟩
        · rw [List.mem_singleton] at hnew
          subst hnew
          exact Or.inl hs
    · intro s hs t ht
      dsimp only at hs ht ⊢
      obtain ⟨x, hx, hsx⟩ := hhub s hs
      obtain ⟨y, hy, hty⟩ := hhub t ht
      have hxy : Link (P ++ [hl])
          (hl.1 :: (groups.filter (fun g => !disjointB (seriesAt hl.2) g.2)).flatMap (·.1)) x y :=
        ⟨hl, by simp, by simp, hx, hy⟩
      exact (hsx.trans (Relation.ReflTransGen.single hxy)).trans (chain_symm _ _ _ _ hty)

theorem fold_ginv (m P : Mapping Rat) (groups : List Group)
    (hnd : ((P ++ m).map (·.1)).Nodup) (h : ∀ g ∈ groups, GInv P g) :
    ∀ g ∈ m.foldl compStep groups, GInv (P ++ m) g := by
  induction m generalizing P groups with
  | nil =>
    rw [List.append_nil]
    exact h
  | cons hl m ih =>
    have hsplit : P ++ hl :: m = (P ++ [hl]) ++ m := by simp
    rw [hsplit] at hnd ⊢
    have hfresh : hl.1 ∉ P.map (·.1) := by
      rw [List.map_append, List.map_append] at hnd
      have h1 := (List.nodup_append.1 hnd).1
      intro hin
      exact (List.nodup_append.1 h1).2.2 hl.1 hin hl.1 (by simp) rfl
    exact ih (P ++ [hl]) (compStep groups hl) hnd (step_ginv groups hl P hfresh h)

theorem components_ginv (m : Mapping Rat) (hnd : (m.map (·.1)).Nodup) :
    ∀ g ∈ components m, GInv m g := by
  have := fold_ginv m [] [] (by simpa using hnd) (by intro g hg; cases hg)
  simpa [components_eq] using this

/-! ### The two statements on groups -/

theorem components_series (m : Mapping Rat) (hnd : (m.map (·.1)).Nodup) :
    ∀ g ∈ components m, ∀ s, s ∈ g.2 ↔ s ∈ seriesOf (restrictTo m g.1) := by
  intro g hg s
  rw [(components_ginv m hnd g hg).ser s, mem_seriesOf]
  constructor
  · rintro ⟨hl, hmem, hL, hs⟩
    exact ⟨hl, (mem_restrictTo m g.1 hl).2 ⟨hmem, hL⟩, hs⟩
  · rintro ⟨hl, hmem, hs⟩
    rw [mem_restrictTo] at hmem
    exact ⟨hl, hmem.1, hmem.2, hs⟩

theorem components_connected (m : Mapping Rat) (_hm : ProperMapping m)
    (hnd : (m.map (·.1)).Nodup) :
    ∀ g ∈ components m, Connected (restrictTo m g.1) := by
  intro g hg s hs t ht
  rw [← components_series m hnd g hg] at hs ht
  have hc := (components_ginv m hnd g hg).conn s hs t ht
  exact Relation.ReflTransGen.mono (fun a b hab => (shares_restrictTo m g.1 a b).2 hab) s t hc

/-! ### The kept group -/

/-- the choice made by `mainComponent` at each group -/
def pick (best : Option Group) (g : Group) : Option Group :=
  match best with
  | none => some g
  | some b => if b.1.length < g.1.length then some g else some b

theorem mainComponent_eq (m : Mapping Rat) :
    mainComponent m = (((components m).foldl pick none).map (·.1)).getD [] := rfl

/-- the fold returns the entry at the least index among those with the most levels -/
theorem pick_fold (l : List Group) : l ≠ [] →
    ∃ j, ∃ hj : j < l.length, l.foldl pick none = some l[j] ∧
      (∀ i (hi : i < l.length), l[i].1.length ≤ l[j].1.length) ∧
      (∀ i (hi : i < l.length), l[i].1.length = l[j].1.length → j ≤ i) := by
  induction l using List.reverseRecOn with
  | nil => intro h; exact absurd rfl h
  | append_singleton l a ih =>
    intro _
    rw [List.foldl_append]
    simp only [List.foldl_cons, List.foldl_nil]
    by_cases hl : l = []
    · subst hl
      refine ⟨0, by simp, by simp [pick], ?_, ?_⟩
      · intro i hi
        have : i = 0 := by simpa using hi
        subst this
        exact Nat.le_refl _
      · intro i _ _
        exact Nat.zero_le _
    · obtain ⟨j, hj, hf, hmax, hfirst⟩ := ih hl
      rw [hf]
      have hlen : (l ++ [a]).length = l.length + 1 := by simp
      have hlast : (l ++ [a])[l.length]'(by simp) = a := by simp
      have hold : ∀ i (hi : i < l.length), (l ++ [a])[i]'(by rw [hlen]; omega) = l[i] :=
        fun i hi => List.getElem_append_left hi
      by_cases hlt : l[j].1.length < a.1.length
      · refine ⟨l.length, by simp, ?_, ?_, ?_⟩
        · simp [pick, hlt]
        · intro i hi
          rw [hlast]
          by_cases hi' : i < l.length
          · rw [hold i hi']
            have := hmax i hi'
            omega
          · have : i = l.length := by omega
            subst this
            rw [hlast]
        · intro i hi he
          rw [hlast] at he
          by_cases hi' : i < l.length
          · rw [hold i hi'] at he
            have := hmax i hi'
            omega
          · omega
      · refine ⟨j, by omega, ?_, ?_, ?_⟩
        · rw [hold j hj]
          simp [pick, hlt]
        · intro i hi
          rw [hold j hj]
          by_cases hi' : i < l.length
          · rw [hold i hi']
            exact hmax i hi'
          · have : i = l.length := by omega
            subst this
            rw [hlast]
            omega
        · intro i hi he
          rw [hold j hj] at he
          by_cases hi' : i < l.length
          · rw [hold i hi'] at he
            exact hfirst i hi' he
          · omega

theorem compStep_ne_nil (groups : List Group) (hl : Int × List (Nat × Rat)) :
    compStep groups hl ≠ [] := by
  unfold compStep
  simp

theorem fold_ne_nil (m : Mapping Rat) (groups : List Group) (h : groups ≠ []) :
    m.foldl compStep groups ≠ [] := by
  induction m generalizing groups with
  | nil => exact h
  | cons hl m ih => exact ih _ (compStep_ne_nil groups hl)

theorem components_ne_nil (m : Mapping Rat) (hne : m ≠ []) : components m ≠ [] := by
  rw [components_eq]
  cases m with
  | nil => exact absurd rfl hne
  | cons hl m => exact fold_ne_nil m _ (compStep_ne_nil [] hl)

/-- the kept group, by its index in creation order (no hypothesis on the level ids) -/
theorem mainComponent_index (m : Mapping Rat) (hne : m ≠ []) :
    ∃ j, ∃ hj : j < (components m).length, mainComponent m = (components m)[j].1 ∧
      (∀ g' ∈ components m, g'.1.length ≤ (components m)[j].1.length) ∧
      (∀ i (hi : i < (components m).length),
        (components m)[i].1.length = (components m)[j].1.length → j ≤ i) := by
  obtain ⟨j, hj, hf, hmax, hfirst⟩ := pick_fold (components m) (components_ne_nil m hne)
  refine ⟨j, hj, ?_, ?_, hfirst⟩
  · rw [mainComponent_eq, hf]
    rfl
  · intro g' hg'
    obtain ⟨i, hi, rfl⟩ := List.getElem_of_mem hg'
    exact hmax i hi

/-- with distinct level ids, no group occurs twice -/
theorem components_inj (m : Mapping Rat) (hnd : (m.map (·.1)).Nodup)
    (i j : Nat) (hi : i < (components m).length) (hj : j < (components m).length)
    (he : (components m)[i] = (components m)[j]) : i = j := by
  have hperm := (components_inv m hnd).1
  have hnd' : ((components m).flatMap (·.1)).Nodup := hperm.nodup_iff.2 hnd
  have hpw := (List.nodup_flatMap.1 hnd').2
  have key : ∀ a b (ha : a < (components m).length) (hb : b < (components m).length),
      a < b → (components m)[a] = (components m)[b] → False := by
    intro a b ha hb hab heq
    have hd := (List.pairwise_iff_getElem.1 hpw) a b ha hb hab
    have hne := (components_ginv m hnd _ (List.getElem_mem hb)).ne
    obtain ⟨x, hx⟩ := List.exists_mem_of_ne_nil _ hne
    simp only [Function.onFun] at hd
    rw [heq] at hd
    exact hd hx hx
  rcases Nat.lt_trichotomy i j with h | h | h
  · exact (key i j hi hj h he).elim
  · exact h
  · exact (key j i hj hi h he.symm).elim

/-- Corrected form of the statement in Props/C08Components: the level ids must be distinct, or a
    group may occur twice (`[(0, []), (0, [])]` gives `[([0], []), ([0], [])]`) and "the index of
    `g`" is not determined. -/
theorem mainComponent_spec (m : Mapping Rat) (hnd : (m.map (·.1)).Nodup) (hne : m ≠ []) :
    ∃ g ∈ components m, mainComponent m = g.1 ∧
      (∀ g' ∈ components m, g'.1.length ≤ g.1.length) ∧
      (∀ i j (hi : i < (components m).length) (hj : j < (components m).length),
        (components m)[j] = g → (components m)[i].1.length = g.1.length → j ≤ i) := by
  obtain ⟨k, hk, hmain, hmax, hfirst⟩ := mainComponent_index m hne
  refine ⟨(components m)[k], List.getElem_mem hk, hmain, hmax, ?_⟩
  intro i j hi hj hjg hlen
  have : j = k := components_inj m hnd j k hj hk hjg
  subst this
  exact hfirst i hi hlen

end LS
end Spowtd
