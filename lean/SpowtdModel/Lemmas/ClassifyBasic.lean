import SpowtdModel.Model.Classify
import SpowtdModel.Lemmas.Runs
/-
  Helper lemmas for the classify-level theorems that do not depend on the matching theory:
  overlap test, stable sort, `runWithStart`, lengths of the flag vectors, epochs of a stretch.
-/
namespace Spowtd

/-! ### overlap -/

theorem overlaps_iff' (st ri : Nat × Nat) :
    overlaps st ri = true ↔ ∃ i, st.1 ≤ i ∧ i < st.2 ∧ ri.1 ≤ i ∧ i < ri.2 := by
  unfold overlaps Nat.max Nat.min
  rw [decide_eq_true_eq]
  constructor
  · intro h
    exact ⟨max st.1 ri.1, by omega, by omega, by omega, by omega⟩
  · rintro ⟨i, h1, h2, h3, h4⟩
    omega

theorem overlaps_default (a : Nat) (ri : Nat × Nat) : overlaps (a, a) ri = false := by
  cases h : overlaps (a, a) ri with
  | false => rfl
  | true =>
    obtain ⟨i, h1, h2, _, _⟩ := (overlaps_iff' _ _).1 h
    simp only at h1 h2
    omega

/-! ### `insertByKey`, `sortByKey` -/

theorem insertByKey_perm (key : Nat → Int) (x : Nat) (l : List Nat) :
    (insertByKey key x l).Perm (x :: l) := by
  induction l with
  | nil => exact List.Perm.refl _
  | cons y ys ih =>
    unfold insertByKey
    split
    · exact List.Perm.refl _
    · exact ((List.Perm.cons y ih).trans (List.Perm.swap x y ys))

theorem foldl_insertByKey_perm (key : Nat → Int) (l : List Nat) :
    ∀ acc : List Nat, (l.foldl (fun acc x => insertByKey key x acc) acc).Perm (l ++ acc) := by
  induction l with
  | nil => intro acc; exact List.Perm.refl _
  | cons x l ih =>
    intro acc
    rw [List.foldl_cons]
    refine (ih _).trans ?_
    refine (List.Perm.append_left l (insertByKey_perm key x acc)).trans ?_
    exact List.perm_middle

theorem sortByKey_perm (key : Nat → Int) (l : List Nat) : (sortByKey key l).Perm l := by
  have := foldl_insertByKey_perm key l []
  rwa [List.append_nil] at this

theorem insertByKey_sorted (key : Nat → Int) (x : Nat) (l : List Nat)
    (h : l.Pairwise (fun a b => key a ≤ key b)) :
    (insertByKey key x l).Pairwise (fun a b => key a ≤ key b) := by
  induction l with
  | nil => exact List.pairwise_singleton _ _
  | cons y ys ih =>
    unfold insertByKey
    rw [List.pairwise_cons] at h
    split
    · rename_i hlt
      refine List.pairwise_cons.2 ⟨?_, List.pairwise_cons.2 h⟩
      intro z hz
      rcases List.mem_cons.1 hz with rfl | hz
      · omega
      · have := h.1 z hz
        omega
    · rename_i hge
      refine List.pairwise_cons.2 ⟨?_, ih h.2⟩
      intro z hz
      have hz' := (insertByKey_perm key x ys).mem_iff.1 hz
      rcases List.mem_cons.1 hz' with rfl | hz'
      · omega
      · exact h.1 z hz'

theorem foldl_insertByKey_sorted (key : Nat → Int) (l : List Nat) :
    ∀ acc : List Nat, acc.Pairwise (fun a b => key a ≤ key b) →
      (l.foldl (fun acc x => insertByKey key x acc) acc).Pairwise (fun a b => key a ≤ key b) := by
  induction l with
  | nil => intro acc h; exact h
  | cons x l ih =>
    intro acc h
    rw [List.foldl_cons]
    exact ih _ (insertByKey_sorted key x acc h)

theorem sortByKey_sorted (key : Nat → Int) (l : List Nat) :
    (sortByKey key l).Pairwise (fun a b => key a ≤ key b) :=
  foldl_insertByKey_sorted key l [] List.Pairwise.nil

theorem pairwise_split {β : Type} {R : β → β → Prop} {pre mid post : List β} {a b : β}
    (h : (pre ++ a :: (mid ++ b :: post)).Pairwise R) : R a b := by
  have h1 := (List.pairwise_append.1 h).2.1
  exact (List.pairwise_cons.1 h1).1 b (List.mem_append_right _ List.mem_cons_self)

/-- in the reversed sorted list, earlier means larger-or-equal key -/
theorem sortByKey_reverse_before (key : Nat → Int) (l : List Nat) {pre mid post : List Nat} {r r' : Nat}
    (h : (sortByKey key l).reverse = pre ++ r :: (mid ++ r' :: post)) : key r' ≤ key r := by
  have hs : (sortByKey key l).reverse.Pairwise (fun a b => key b ≤ key a) :=
    List.pairwise_reverse.2 (sortByKey_sorted key l)
  rw [h] at hs
  exact pairwise_split (R := fun a b => key b ≤ key a) hs

/-! ### `runWithStart` -/

theorem runWithStart_fst (runs : List (Nat × Nat)) (a : Nat) : (runWithStart runs a).1 = a := by
  unfold runWithStart
  cases h : runs.find? (fun r => r.1 == a) with
  | none => rfl
  | some r =>
    have := List.find?_some h
    simpa using this

theorem runWithStart_mem (runs : List (Nat × Nat)) (a : Nat) (h : ∃ r ∈ runs, r.1 = a) :
    runWithStart runs a ∈ runs := by
  unfold runWithStart
  cases hf : runs.find? (fun r => r.1 == a) with
  | none =>
    obtain ⟨r, hr, e⟩ := h
    have := List.find?_eq_none.1 hf r hr
    simp [e] at this
  | some r => exact List.mem_of_find?_eq_some hf

theorem runWithStart_default (runs : List (Nat × Nat)) (a : Nat) (h : ∀ r ∈ runs, r.1 ≠ a) :
    runWithStart runs a = (a, a) := by
  unfold runWithStart
  cases hf : runs.find? (fun r => r.1 == a) with
  | none => rfl
  | some r =>
    have h1 := List.find?_some hf
    have h2 := List.mem_of_find?_eq_some hf
    exact absurd (by simpa using h1) (h r h2)

theorem runWithStart_trueRuns (v : List Bool) (r : Nat × Nat) (h : r ∈ trueRuns v) :
    runWithStart (trueRuns v) r.1 = r :=
  trueRuns_start_inj' v _ _ (runWithStart_mem _ _ ⟨r, h, rfl⟩) h (runWithStart_fst _ _)

/-! ### lengths -/

variable {α : Type} [Num α]

theorem wet_length (r : List α) : (wet r).length = r.length := List.length_map _
theorem heavy_length (s : α) (r : List α) : (heavy s r).length = r.length := List.length_map _
theorem incs_length (z : List α) : (incs z).length = z.length - 1 := by
  unfold incs
  rw [List.length_zipWith, List.length_tail]
  omega
theorem jumps_length (j : α) (dt : Int) (z : List α) : (jumps j dt z).length = z.length - 1 := by
  unfold jumps
  rw [List.length_map, incs_length]
theorem flagJump_length (j : α) (dt : Int) (z : List α) : (flagJump j dt z).length = z.length := by
  cases z with
  | nil => rfl
  | cons a t =>
    show (jumps j dt (a :: t)).length + 1 = t.length + 1
    rw [jumps_length]; rfl

theorem flagJump_succ (j : α) (dt : Int) (z : List α) (k : Nat) :
    (flagJump j dt z)[k + 1]? = (jumps j dt z)[k]? := by
  cases z with
  | nil => rfl
  | cons a t => rfl

theorem classifyIdx_flags_getElem? (pick : List Nat → Nat) (s j : α) (dt : Int) (zeta rain : List α)
    (k : Nat) (hk : k < zeta.length) (hl : zeta.length = rain.length) :
    (classifyIdx pick s j dt zeta rain).flags[k]? =
      some ((flagJump j dt zeta).getD k false,
            (mysteryMask (flagJump j dt zeta) (wet rain)).getD k false,
            (interstormFlag (flagJump j dt zeta) (wet rain)).getD k false) := by
  show (List.zipWith (fun a bc => (a, bc)) (flagJump j dt zeta)
    (List.zip (mysteryMask (flagJump j dt zeta) (wet rain))
      (interstormFlag (flagJump j dt zeta) (wet rain))))[k]? = _
  have h1 : k < (flagJump j dt zeta).length := by rw [flagJump_length]; exact hk
  have h2 : k < (mysteryMask (flagJump j dt zeta) (wet rain)).length := by
    rw [mysteryMask_length', flagJump_length, wet_length]; omega
  have h3 : k < (interstormFlag (flagJump j dt zeta) (wet rain)).length := by
    rw [interstormFlag_length, flagJump_length, wet_length]; omega
  rw [List.zip_eq_zipWith, List.getElem?_zipWith, List.getElem?_zipWith]
  simp only [List.getD_eq_getElem?_getD, List.getElem?_eq_getElem h1, List.getElem?_eq_getElem h2,
    List.getElem?_eq_getElem h3, Option.getD_some]

/-! ### the rain-depth view -/

theorem totalRainDepth_steps (db : Loaded α) (storm : Int × Int) (dt : Int) (hdt : 0 < dt)
    (hrows : ∀ r ∈ db.rain, r.2.1 = r.1 + dt) (hal : ∀ r ∈ db.rain, dt ∣ (storm.2 - r.1)) :
    totalRainDepth db storm =
      Num.sum ((db.rain.filter (fun r => decide (storm.1 ≤ r.1) && decide (r.1 < storm.2))).map
        (fun r => Num.div (Num.mul r.2.2 (Num.ofInt dt)) (Num.ofInt 3600))) := by
  unfold totalRainDepth
  have hf : db.rain.filter (fun r => decide (storm.1 ≤ r.1) && decide (r.2.1 ≤ storm.2)) =
      db.rain.filter (fun r => decide (storm.1 ≤ r.1) && decide (r.1 < storm.2)) := by
    apply List.filter_congr
    intro r hr
    have h1 := hrows r hr
    have h2 := hal r hr
    have : (r.2.1 ≤ storm.2) ↔ (r.1 < storm.2) := by
      rw [h1]
      constructor
      · intro h; omega
      · intro h
        have := Int.le_of_dvd (by omega) h2
        omega
    simp only [this]
  rw [hf]
  congr 1
  apply List.map_congr_left
  intro r hr
  have hr' := (List.mem_filter.1 hr).1
  have : r.2.1 - r.1 = dt := by rw [hrows r hr']; omega
  rw [this]

end Spowtd
