import SpowtdModel.Model.Load
/- Ordered disjoint gap lists, valid intervals and labels. -/
namespace Spowtd
namespace LoadB

/-! ### `minOf` -/

theorem foldl_min_memB (xs : List Int) (x : Int) :
    xs.foldl (fun m y => if y < m then y else m) x = x ∨
      xs.foldl (fun m y => if y < m then y else m) x ∈ xs := by
  induction xs generalizing x with
  | nil => exact Or.inl rfl
  | cons y ys ih =>
    rw [List.foldl_cons]
    rcases ih (if y < x then y else x) with h | h
    · rw [h]
      by_cases hyx : y < x
      · rw [if_pos hyx]; exact Or.inr List.mem_cons_self
      · rw [if_neg hyx]; exact Or.inl rfl
    · exact Or.inr (List.mem_cons_of_mem _ h)

theorem minOf_memB (l : List Int) (m : Int) (h : minOf l = some m) : m ∈ l := by
  cases l with
  | nil => simp [minOf] at h
  | cons x xs =>
    simp only [minOf, Option.some.injEq] at h
    rw [← h]
    rcases foldl_min_memB xs x with h' | h'
    · rw [h']; exact List.mem_cons_self
    · exact List.mem_cons_of_mem _ h'

/-! ### ordered gap lists -/

/-- each gap is non-degenerate and the gaps are ordered and non-overlapping -/
def GapsOK (gaps : List (Int × Int)) : Prop :=
  gaps.Pairwise (fun p q => p.2 ≤ q.1) ∧ ∀ p ∈ gaps, p.1 < p.2

theorem GapsOK.tail {p : Int × Int} {ps : List (Int × Int)} (h : GapsOK (p :: ps)) : GapsOK ps :=
  ⟨(List.pairwise_cons.1 h.1).2, fun q hq => h.2 q (List.mem_cons_of_mem _ hq)⟩

theorem GapsOK.head_lt {p : Int × Int} {ps : List (Int × Int)} (h : GapsOK (p :: ps)) : p.1 < p.2 :=
  h.2 p List.mem_cons_self

theorem GapsOK.head_le {p : Int × Int} {ps : List (Int × Int)} (h : GapsOK (p :: ps)) :
    ∀ q ∈ ps, p.2 ≤ q.1 := (List.pairwise_cons.1 h.1).1

theorem zip_tail_okB (zt : List Int) (h : zt.Pairwise (· < ·)) : GapsOK (List.zip zt zt.tail) := by
  induction zt with
  | nil => exact ⟨List.Pairwise.nil, fun p hp => by simp at hp⟩
  | cons a t ih =>
    cases t with
    | nil => exact ⟨by simp, fun p hp => by simp at hp⟩
    | cons b rest =>
      rw [List.pairwise_cons] at h
      have ih' := ih h.2
      have hz : List.zip (a :: b :: rest) (a :: b :: rest).tail =
          (a, b) :: List.zip (b :: rest) (b :: rest).tail := rfl
      rw [hz]
      refine ⟨List.pairwise_cons.2 ⟨?_, ih'.1⟩, ?_⟩
      · intro q hq
        have hq1 : q.1 ∈ b :: rest := (List.of_mem_zip (a := q.1) (b := q.2) hq).1
        rcases List.mem_cons.1 hq1 with h1 | h1
        · show b ≤ q.1
          omega
        · have := (List.pairwise_cons.1 h.2).1 q.1 h1
          show b ≤ q.1
          omega
      · intro q hq
        rcases List.mem_cons.1 hq with rfl | hq
        · exact h.1 b List.mem_cons_self
        · exact ih'.2 q hq

theorem gapsOf_specB (zt : List Int) (p : Int × Int) :
    p ∈ gapsOf zt ↔ p ∈ List.zip zt zt.tail ∧ ∃ m, minOf (diffs zt) = some m ∧ p.2 - p.1 ≠ m := by
  unfold gapsOf
  cases hm : minOf (diffs zt) with
  | none => simp
  | some m =>
    simp only [List.mem_filter, bne_iff_ne, Option.some.injEq]
    constructor
    · rintro ⟨h1, h2⟩
      exact ⟨h1, m, rfl, h2⟩
    · rintro ⟨h1, m', hm', h2⟩
      exact ⟨h1, hm' ▸ h2⟩

theorem gapsOf_okB (zt : List Int) (h : zt.Pairwise (· < ·)) : GapsOK (gapsOf zt) := by
  have hz := zip_tail_okB zt h
  unfold gapsOf
  cases minOf (diffs zt) with
  | none => exact ⟨List.Pairwise.nil, fun p hp => by simp at hp⟩
  | some m =>
    exact ⟨hz.1.filter _, fun p hp => hz.2 p (List.mem_filter.1 hp).1⟩

/-! ### valid intervals, recursively -/

def ivsRec (closing : Int) : Int → List (Int × Int) → Nat → List (Int × Int × Nat)
  | first, [], n => [(first, closing, n + 1)]
  | first, p :: ps, n => (first, p.1, n + 1) :: ivsRec closing p.2 ps (n + 1)

theorem zipIdx_ivsRec (closing first : Int) (gaps : List (Int × Int)) (n : Nat) :
    ((List.zip (first :: gaps.map (·.2)) (gaps.map (·.1) ++ [closing])).zipIdx n).map
        (fun p => (p.1.1, p.1.2, p.2 + 1)) = ivsRec closing first gaps n := by
  induction gaps generalizing first n with
  | nil => simp [ivsRec]
  | cons p ps ih =>
    simp only [List.map_cons, List.cons_append, List.zip_cons_cons, List.zipIdx_cons, ivsRec]
    rw [ih]

theorem validIntervals_eqB (first closing : Int) (gaps : List (Int × Int)) :
    validIntervals first closing gaps = ivsRec closing first gaps 0 := by
  unfold validIntervals
  exact zipIdx_ivsRec closing first gaps 0

/-! ### labels -/

theorem labelOf_foldlB (g : Int) (ivs : List (Int × Int × Nat)) (acc : Option Nat) :
    ivs.foldl (fun acc iv => if decide (iv.1 ≤ g) && decide (g ≤ iv.2.1) then some iv.2.2 else acc) acc
      = (labelOf ivs g).or acc := by
  induction ivs generalizing acc with
  | nil => simp [labelOf]
  | cons iv rest ih =>
    unfold labelOf
    rw [List.foldl_cons, List.foldl_cons, ih, ih]
    cases labelOf rest g with
    | some l => simp
    | none =>
      simp only [Option.none_or]
      by_cases hc : (decide (iv.1 ≤ g) && decide (g ≤ iv.2.1)) = true
      · simp [hc]
      · simp [hc]

theorem labelOf_consB (g : Int) (iv : Int × Int × Nat) (rest : List (Int × Int × Nat)) :
    labelOf (iv :: rest) g =
      (labelOf rest g).or (if iv.1 ≤ g ∧ g ≤ iv.2.1 then some iv.2.2 else none) := by
  have : labelOf (iv :: rest) g =
      rest.foldl (fun acc iv => if decide (iv.1 ≤ g) && decide (g ≤ iv.2.1) then some iv.2.2 else acc)
        (if decide (iv.1 ≤ g) && decide (g ≤ iv.2.1) then some iv.2.2 else none) := rfl
  rw [this, labelOf_foldlB]
  simp only [Bool.and_eq_true, decide_eq_true_eq]

/-- label of `g` w.r.t. the recursive interval list -/
def lab (closing first : Int) (gaps : List (Int × Int)) (n : Nat) (g : Int) : Option Nat :=
  labelOf (ivsRec closing first gaps n) g

theorem lab_nil (closing first : Int) (n : Nat) (g : Int) :
    lab closing first [] n g = if first ≤ g ∧ g ≤ closing then some (n + 1) else none := by
  unfold lab ivsRec
  rw [labelOf_consB]
  simp [labelOf]

theorem lab_cons (closing first : Int) (p : Int × Int) (ps : List (Int × Int)) (n : Nat) (g : Int) :
    lab closing first (p :: ps) n g =
      (lab closing p.2 ps (n + 1) g).or (if first ≤ g ∧ g ≤ p.1 then some (n + 1) else none) := by
  unfold lab
  rw [ivsRec, labelOf_consB]

/-- case analysis for a label of a non-empty gap list -/
theorem lab_cons_cases {closing first : Int} {p : Int × Int} {ps : List (Int × Int)} {n : Nat}
    {g : Int} {l : Nat} (h : lab closing first (p :: ps) n g = some l) :
    lab closing p.2 ps (n + 1) g = some l ∨
      (lab closing p.2 ps (n + 1) g = none ∧ first ≤ g ∧ g ≤ p.1 ∧ l = n + 1) := by
  rw [lab_cons] at h
  cases hin : lab closing p.2 ps (n + 1) g with
  | some l' =>
    rw [hin] at h
    simp only [Option.some_or, Option.some.injEq] at h
    exact Or.inl (by rw [h])
  | none =>
    rw [hin] at h
    simp only [Option.none_or] at h
    by_cases hc : first ≤ g ∧ g ≤ p.1
    · simp only [hc, and_self, if_true, Option.some.injEq] at h
      exact Or.inr ⟨rfl, hc.1, hc.2, h.symm⟩
    · simp [hc] at h

theorem lab_label_ge (closing first : Int) (gaps : List (Int × Int)) (n : Nat) (g : Int) (l : Nat)
    (h : lab closing first gaps n g = some l) : n + 1 ≤ l := by
  induction gaps generalizing first n with
  | nil =>
    rw [lab_nil] at h
    by_cases hc : first ≤ g ∧ g ≤ closing
    · simp only [hc, and_self, if_true, Option.some.injEq] at h; omega
    · simp [hc] at h
  | cons p ps ih =>
    rcases lab_cons_cases h with h1 | ⟨_, _, _, h1⟩
    · have := ih _ _ h1; omega
    · omega

theorem lab_first_le (closing first : Int) (gaps : List (Int × Int)) (n : Nat) (g : Int) (l : Nat)
    (hok : GapsOK gaps) (hf : ∀ q ∈ gaps, first ≤ q.2)
    (h : lab closing first gaps n g = some l) : first ≤ g := by
  induction gaps generalizing first n with
  | nil =>
    rw [lab_nil] at h
    by_cases hc : first ≤ g ∧ g ≤ closing
    · exact hc.1
    · simp [hc] at h
  | cons p ps ih =>
    rcases lab_cons_cases h with h1 | ⟨_, h1, _, _⟩
    · have h2 : ∀ q ∈ ps, p.2 ≤ q.2 := fun q hq => by
        have := hok.head_le q hq
        have := hok.tail.2 q hq
        omega
      have := ih p.2 (n + 1) hok.tail h2 h1
      have := hf p List.mem_cons_self
      omega
    · exact h1

/-- the start of the tail intervals bounds every labelled instant of the tail -/
theorem lab_tail_le {closing : Int} {p : Int × Int} {ps : List (Int × Int)} {n : Nat} {g : Int}
    {l : Nat} (hok : GapsOK (p :: ps)) (h : lab closing p.2 ps n g = some l) : p.2 ≤ g := by
  refine lab_first_le closing p.2 ps n g l hok.tail ?_ h
  intro q hq
  have := hok.head_le q hq
  have := hok.tail.2 q hq
  omega

/-- (A) a labelled instant is not strictly inside a gap -/
theorem lab_not_in_gap (closing first : Int) (gaps : List (Int × Int)) (n : Nat) (g : Int) (l : Nat)
    (hok : GapsOK gaps) (h : lab closing first gaps n g = some l) :
    ∀ p ∈ gaps, ¬ (p.1 < g ∧ g < p.2) := by
  induction gaps generalizing first n with
  | nil => intro p hp; simp at hp
  | cons p ps ih =>
    intro q hq
    rcases lab_cons_cases h with h1 | ⟨_, _, h1, _⟩
    · have hp2 := lab_tail_le hok h1
      rcases List.mem_cons.1 hq with rfl | hq
      · omega
      · exact ih p.2 (n + 1) hok.tail h1 q hq
    · rcases List.mem_cons.1 hq with rfl | hq
      · omega
      · have := hok.head_le q hq
        have := hok.head_lt
        omega

/-- (B) an instant of the grid span that is not strictly inside a gap is labelled -/
theorem lab_some (closing first : Int) (gaps : List (Int × Int)) (n : Nat) (g : Int)
    (h1 : first ≤ g) (h2 : g ≤ closing) (hg : ∀ p ∈ gaps, ¬ (p.1 < g ∧ g < p.2)) :
    ∃ l, lab closing first gaps n g = some l := by
  induction gaps generalizing first n with
  | nil =>
    rw [lab_nil]
    exact ⟨n + 1, by simp [h1, h2]⟩
  | cons p ps ih =>
    rw [lab_cons]
    by_cases hp : p.2 ≤ g
    · obtain ⟨l, hl⟩ := ih p.2 (n + 1) hp (fun q hq => hg q (List.mem_cons_of_mem _ hq))
      exact ⟨l, by rw [hl]; simp⟩
    · have := hg p List.mem_cons_self
      have hc : first ≤ g ∧ g ≤ p.1 := ⟨h1, by omega⟩
      cases lab closing p.2 ps (n + 1) g with
      | some l => exact ⟨l, by simp⟩
      | none => exact ⟨n + 1, by simp [hc]⟩

/-- (C) two labelled instants share their label iff no gap separates them -/
theorem lab_eq_iff (closing first : Int) (gaps : List (Int × Int)) (n : Nat) (g g' : Int) (l l' : Nat)
    (hok : GapsOK gaps) (h : lab closing first gaps n g = some l)
    (h' : lab closing first gaps n g' = some l') (hlt : g < g') :
    l = l' ↔ ¬ ∃ p ∈ gaps, g ≤ p.1 ∧ p.2 ≤ g' := by
  induction gaps generalizing first n with
  | nil =>
    rw [lab_nil] at h h'
    have e1 : l = n + 1 := by
      by_cases hc : first ≤ g ∧ g ≤ closing
      · simp only [hc, and_self, if_true, Option.some.injEq] at h; exact h.symm
      · simp [hc] at h
    have e2 : l' = n + 1 := by
      by_cases hc : first ≤ g' ∧ g' ≤ closing
      · simp only [hc, and_self, if_true, Option.some.injEq] at h'; exact h'.symm
      · simp [hc] at h'
    constructor
    · rintro _ ⟨p, hp, _⟩; simp at hp
    · intro _; omega
  | cons p ps ih =>
    have hplt := hok.head_lt
    rcases lab_cons_cases h with h1 | ⟨h1, hf, hg, hl⟩
    · have hp2 := lab_tail_le hok h1
      rcases lab_cons_cases h' with h1' | ⟨h1', hf', hg', hl'⟩
      · rw [ih p.2 (n + 1) hok.tail h1 h1']
        constructor
        · rintro hno ⟨q, hq, hq1, hq2⟩
          rcases List.mem_cons.1 hq with rfl | hq
          · omega
          · exact hno ⟨q, hq, hq1, hq2⟩
        · rintro hno ⟨q, hq, hq1, hq2⟩
          exact hno ⟨q, List.mem_cons_of_mem _ hq, hq1, hq2⟩
      · omega
    · rcases lab_cons_cases h' with h1' | ⟨h1', hf', hg', hl'⟩
      · have hp2 := lab_tail_le hok h1'
        have := lab_label_ge _ _ _ _ _ _ h1'
        constructor
        · intro e; omega
        · intro hno
          exact absurd ⟨p, List.mem_cons_self, hg, hp2⟩ hno
      · constructor
        · rintro _ ⟨q, hq, hq1, hq2⟩
          rcases List.mem_cons.1 hq with rfl | hq
          · omega
          · have := hok.head_le q hq
            have := hok.tail.2 q hq
            omega
        · intro _; omega

end LoadB
end Spowtd
