import Mathlib.Tactic.Ring
import Mathlib.Tactic.FieldSimp
import SpowtdModel.Model.Load
/- The interpolation formula at `Rat` is the chord. -/
namespace Spowtd
namespace LoadB

theorem chordB (x0 x1 g : Int) (y0 y1 : Rat) (h : x0 < x1) :
    Num.add (Num.mul (Num.div (Num.sub y1 y0) (Num.ofInt (x1 - x0))) (Num.ofInt (g - x0))) y0 =
      y0 + (y1 - y0) * ((g - x0 : Int) : Rat) / ((x1 - x0 : Int) : Rat) := by
  show (y1 - y0) / ((x1 - x0 : Int) : Rat) * ((g - x0 : Int) : Rat) + y0 = _
  have hne : ((x1 - x0 : Int) : Rat) ≠ 0 := by
    apply Int.cast_ne_zero.2
    omega
  field_simp
  ring

end LoadB
end Spowtd
