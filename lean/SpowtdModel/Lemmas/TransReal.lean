import SpowtdModel.Lemmas.RealNum
import Mathlib.MeasureTheory.Integral.IntervalIntegral.FundThmCalculus
import Mathlib.Analysis.SpecialFunctions.Integrals.Basic
/- Helper lemmas for Props/C15 and Props/C16 (real analysis). -/
namespace Spowtd
namespace TR
open Classical

/-! ### The `Num ℝ` / `NumT ℝ` instances unfold to ordinary real operations -/

theorem toNum_eq : @NumT.toNum ℝ instNumTReal = instNumReal := rfl
theorem add_eq (a b : ℝ) : Num.add a b = a + b := rfl
theorem sub_eq (a b : ℝ) : Num.sub a b = a - b := rfl
theorem mul_eq (a b : ℝ) : Num.mul a b = a * b := rfl
theorem div_eq (a b : ℝ) : Num.div a b = a / b := rfl
theorem neg_eq (a : ℝ) : Num.neg a = -a := rfl
theorem ofInt_eq (i : Int) : (Num.ofInt i : ℝ) = (i : ℝ) := rfl
theorem exp_eq (a : ℝ) : NumT.exp a = Real.exp a := rfl
theorem log_eq (a : ℝ) : NumT.log a = Real.log a := rfl
theorem pow_eq (a b : ℝ) : NumT.pow a b = a ^ b := rfl
theorem lt_iff (a b : ℝ) : Num.lt a b = true ↔ a < b := by
  show decide (a < b) = true ↔ a < b
  exact decide_eq_true_iff
theorem le_iff (a b : ℝ) : Num.le a b = true ↔ a ≤ b := by
  show decide (a ≤ b) = true ↔ a ≤ b
  exact decide_eq_true_iff
theorem beq_iff (a b : ℝ) : Num.beq a b = true ↔ a = b := by
  show decide (a = b) = true ↔ a = b
  exact decide_eq_true_iff

/-! ### `pwl` over `ℝ` -/

theorem pwl_cons_cons (a b : ℝ × ℝ) (rest : List (ℝ × ℝ)) (x : ℝ) :
    pwl (a :: b :: rest) x =
      if x ≤ a.1 then a.2
      else if x < b.1 then a.2 + (b.2 - a.2) / (b.1 - a.1) * (x - a.1)
      else pwl (b :: rest) x := by
  simp only [pwl, le_iff, lt_iff, add_eq, sub_eq, mul_eq, div_eq]

theorem pwl_le_first (a : ℝ × ℝ) (rest : List (ℝ × ℝ)) (x : ℝ) (hx : x ≤ a.1) :
    pwl (a :: rest) x = a.2 := by
  cases rest with
  | nil => rfl
  | cons b rest => rw [pwl_cons_cons, if_pos hx]

theorem pwl_ge_second (a b : ℝ × ℝ) (rest : List (ℝ × ℝ)) (x : ℝ) (hab : a.1 < b.1) (hx : b.1 ≤ x) :
    pwl (a :: b :: rest) x = pwl (b :: rest) x := by
  rw [pwl_cons_cons, if_neg (by linarith), if_neg (by linarith)]

theorem pwl_head_segment (a b : ℝ × ℝ) (rest : List (ℝ × ℝ)) (x : ℝ) (hab : a.1 < b.1)
    (h1 : a.1 ≤ x) (h2 : x ≤ b.1) :
    pwl (a :: b :: rest) x = a.2 + (b.2 - a.2) / (b.1 - a.1) * (x - a.1) := by
  rw [pwl_cons_cons]
  by_cases hxa : x ≤ a.1
  · have : x = a.1 := le_antisymm hxa h1
    rw [if_pos hxa, this]; ring
  · rw [if_neg hxa]
    by_cases hxb : x < b.1
    · rw [if_pos hxb]
    · rw [if_neg hxb]
      have hx : x = b.1 := le_antisymm h2 (not_lt.1 hxb)
      rw [pwl_le_first _ _ _ h2, hx]
      have : b.1 - a.1 ≠ 0 := by linarith
      field_simp
      ring

/-- every knot of a sorted list after the head has abscissa ≥ the head's -/
theorem head_le_of_mem {a : ℝ × ℝ} {rest : List (ℝ × ℝ)}
    (hs : ((a :: rest).map (·.1)).Pairwise (· < ·)) {k : ℝ × ℝ} (hk : k ∈ a :: rest) : a.1 ≤ k.1 := by
  rw [List.map_cons, List.pairwise_cons] at hs
  rcases List.mem_cons.1 hk with h | h
  · rw [h]
  · exact (hs.1 k.1 (List.mem_map_of_mem h)).le

theorem sorted_tail {a : ℝ × ℝ} {rest : List (ℝ × ℝ)}
    (hs : ((a :: rest).map (·.1)).Pairwise (· < ·)) : (rest.map (·.1)).Pairwise (· < ·) := by
  rw [List.map_cons, List.pairwise_cons] at hs
  exact hs.2

theorem sorted_head_lt {a b : ℝ × ℝ} {rest : List (ℝ × ℝ)}
    (hs : ((a :: b :: rest).map (·.1)).Pairwise (· < ·)) : a.1 < b.1 := by
  rw [List.map_cons, List.pairwise_cons] at hs
  exact hs.1 b.1 (by simp)

theorem pwl_at_knots (knots : List (ℝ × ℝ)) (hs : (knots.map (·.1)).Pairwise (· < ·)) (k : ℝ × ℝ)
    (hk : k ∈ knots) : pwl knots k.1 = k.2 := by
  induction knots with
  | nil => simp at hk
  | cons a rest ih =>
    rcases List.mem_cons.1 hk with h | h
    · rw [h]; exact pwl_le_first _ _ _ le_rfl
    · cases rest with
      | nil => simp at h
      | cons b rest =>
        rw [pwl_ge_second _ _ _ _ (sorted_head_lt hs) (head_le_of_mem (sorted_tail hs) h)]
        exact ih (sorted_tail hs) h

theorem pwl_linear_between (knots : List (ℝ × ℝ)) (hs : (knots.map (·.1)).Pairwise (· < ·)) (i : Nat)
    (a b : ℝ × ℝ) (ha : knots[i]? = some a) (hb : knots[i + 1]? = some b) (x : ℝ)
    (hx : a.1 ≤ x ∧ x ≤ b.1) :
    pwl knots x = a.2 + (b.2 - a.2) / (b.1 - a.1) * (x - a.1) := by
  induction knots generalizing i with
  | nil => simp at ha
  | cons a0 rest ih =>
    cases rest with
    | nil => simp at hb
    | cons b0 rest =>
      cases i with
      | zero =>
        simp only [List.getElem?_cons_zero, Option.some.injEq, zero_add,
          List.getElem?_cons_succ] at ha hb
        subst ha; subst hb
        exact pwl_head_segment _ _ _ _ (sorted_head_lt hs) hx.1 hx.2
      | succ i =>
        rw [List.getElem?_cons_succ] at ha hb
        have hmem : a ∈ b0 :: rest := List.mem_of_getElem? ha
        have hb0 : b0.1 ≤ a.1 := head_le_of_mem (sorted_tail hs) hmem
        rw [pwl_ge_second _ _ _ _ (sorted_head_lt hs) (le_trans hb0 hx.1)]
        exact ih (sorted_tail hs) i ha hb

theorem pwl_ge_last (knots : List (ℝ × ℝ)) (hs : (knots.map (·.1)).Pairwise (· < ·)) (b : ℝ × ℝ)
    (hb : knots.getLast? = some b) (x : ℝ) (hx : b.1 ≤ x) : pwl knots x = b.2 := by
  induction knots with
  | nil => simp at hb
  | cons a rest ih =>
    cases rest with
    | nil =>
      simp only [List.getLast?_singleton, Option.some.injEq] at hb
      subst hb; rfl
    | cons c rest =>
      rw [List.getLast?_cons_cons] at hb
      have hmem : b ∈ c :: rest := List.mem_of_getLast? hb
      have hcb : c.1 ≤ b.1 := head_le_of_mem (sorted_tail hs) hmem
      rw [pwl_ge_second _ _ _ _ (sorted_head_lt hs) (le_trans hcb hx)]
      exact ih (sorted_tail hs) hb

end TR
end Spowtd
