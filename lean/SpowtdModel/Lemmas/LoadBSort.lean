import SpowtdModel.Model.Load
/- Helper lemmas for Props/C10Levels.lean. -/
namespace Spowtd
namespace LoadB
variable {α : Type}

/-! ### `sortRows` -/

theorem mem_insertRowB (x z : Int × α) (s : List (Int × α)) :
    z ∈ insertRow x s ↔ z = x ∨ z ∈ s := by
  induction s with
  | nil => simp [insertRow]
  | cons y ys ih =>
    unfold insertRow
    by_cases hxy : x.1 ≤ y.1
    · simp only [hxy, if_true, List.mem_cons]
    · simp only [hxy, if_false, List.mem_cons, ih]
      constructor
      · rintro (h | h | h)
        · exact Or.inr (Or.inl h)
        · exact Or.inl h
        · exact Or.inr (Or.inr h)
      · rintro (h | h | h)
        · exact Or.inr (Or.inl h)
        · exact Or.inl h
        · exact Or.inr (Or.inr h)

theorem mem_sortRowsB (z : Int × α) (l : List (Int × α)) : z ∈ sortRows l ↔ z ∈ l := by
  induction l with
  | nil => simp [sortRows]
  | cons x xs ih =>
    have : sortRows (x :: xs) = insertRow x (sortRows xs) := rfl
    rw [this, mem_insertRowB, ih, List.mem_cons]

/-- weakly sorted by epoch -/
def SortedLE (s : List (Int × α)) : Prop := s.Pairwise (fun a b => a.1 ≤ b.1)
/-- strictly sorted by epoch -/
def SortedLT (s : List (Int × α)) : Prop := s.Pairwise (fun a b => a.1 < b.1)

theorem insertRow_sortedLE (x : Int × α) (s : List (Int × α)) (hs : SortedLE s) :
    SortedLE (insertRow x s) := by
  induction s with
  | nil => simp [insertRow, SortedLE]
  | cons y ys ih =>
    unfold SortedLE at hs ih ⊢
    rw [List.pairwise_cons] at hs
    unfold insertRow
    by_cases hxy : x.1 ≤ y.1
    · simp only [hxy, if_true]
      rw [List.pairwise_cons, List.pairwise_cons]
      refine ⟨?_, hs⟩
      intro z hz
      rcases List.mem_cons.1 hz with rfl | hz
      · exact hxy
      · exact Int.le_trans hxy (hs.1 z hz)
    · simp only [hxy, if_false]
      rw [List.pairwise_cons]
      refine ⟨?_, ih hs.2⟩
      intro z hz
      rcases (mem_insertRowB x z ys).1 hz with rfl | hz
      · omega
      · exact hs.1 z hz

theorem sortRows_sortedLE (l : List (Int × α)) : SortedLE (sortRows l) := by
  induction l with
  | nil => simp [sortRows, SortedLE]
  | cons x xs ih => exact insertRow_sortedLE x _ ih

theorem insertRow_sortedLT (x : Int × α) (s : List (Int × α)) (hs : SortedLT s)
    (hx : ∀ z ∈ s, z.1 ≠ x.1) : SortedLT (insertRow x s) := by
  induction s with
  | nil => simp [insertRow, SortedLT]
  | cons y ys ih =>
    unfold SortedLT at hs ih ⊢
    rw [List.pairwise_cons] at hs
    have hy : y.1 ≠ x.1 := hx y (List.mem_cons_self)
    unfold insertRow
    by_cases hxy : x.1 ≤ y.1
    · simp only [hxy, if_true]
      rw [List.pairwise_cons, List.pairwise_cons]
      refine ⟨?_, hs⟩
      intro z hz
      rcases List.mem_cons.1 hz with rfl | hz
      · omega
      · have := hs.1 z hz
        omega
    · simp only [hxy, if_false]
      rw [List.pairwise_cons]
      refine ⟨?_, ih hs.2 (fun z hz => hx z (List.mem_cons_of_mem _ hz))⟩
      intro z hz
      rcases (mem_insertRowB x z ys).1 hz with rfl | hz
      · omega
      · exact hs.1 z hz

theorem hasDup_consB (x : Int) (xs : List Int) (h : hasDup (x :: xs) = false) :
    x ∉ xs ∧ hasDup xs = false := by
  unfold hasDup at h
  rw [Bool.or_eq_false_iff] at h
  refine ⟨?_, h.2⟩
  intro hm
  have := List.contains_iff_mem.2 hm
  rw [this] at h
  exact absurd h.1 (by decide)

theorem sortRows_sortedLT (l : List (Int × α)) (h : hasDup (l.map (·.1)) = false) :
    SortedLT (sortRows l) := by
  induction l with
  | nil => simp [sortRows, SortedLT]
  | cons x xs ih =>
    rw [List.map_cons] at h
    obtain ⟨h1, h2⟩ := hasDup_consB _ _ h
    refine insertRow_sortedLT x _ (ih h2) ?_
    intro z hz hzx
    apply h1
    rw [← hzx]
    exact List.mem_map_of_mem ((mem_sortRowsB z xs).1 hz)

end LoadB
end Spowtd
