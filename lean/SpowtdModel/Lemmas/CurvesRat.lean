import SpowtdModel.Model.Curves
import Mathlib.Data.Rat.Floor
import Mathlib.Tactic.Linarith
import Mathlib.Tactic.FieldSimp
import Mathlib.Tactic.Ring
/- Helper lemmas for Props/C09.lean: the `Rat` instance of the re-origin step. -/
namespace Spowtd

/-! ### the `Num Rat` wrappers -/

@[simp] theorem num_add_rat (a b : Rat) : Num.add a b = a + b := rfl
@[simp] theorem num_sub_rat (a b : Rat) : Num.sub a b = a - b := rfl
@[simp] theorem num_mul_rat (a b : Rat) : Num.mul a b = a * b := rfl
@[simp] theorem num_div_rat (a b : Rat) : Num.div a b = a / b := rfl
@[simp] theorem num_ofInt_rat (i : Int) : (Num.ofInt i : Rat) = (i : Rat) := rfl
@[simp] theorem num_floor_rat (a : Rat) : Num.floor a = ⌊a⌋ := rfl
theorem num_beq_rat (a b : Rat) : Num.beq a b = (a == b) := rfl

theorem foldl_add_rat (l : List Rat) (a : Rat) : l.foldl Num.add a = a + l.sum := by
  induction l generalizing a with
  | nil => simp
  | cons x xs ih =>
    rw [List.foldl_cons, ih, List.sum_cons, num_add_rat]; ring

theorem num_sum_rat (l : List Rat) : Num.sum l = l.sum := by
  unfold Num.sum
  rw [foldl_add_rat, num_ofInt_rat]; simp

theorem mean_rat (l : List Rat) : mean l = l.sum / (l.length : Rat) := by
  unfold mean
  rw [num_sum_rat, num_div_rat, num_ofInt_rat, Int.cast_natCast]

/-! ### shifting every term of a mean -/

theorem sum_map_shift {β : Type} (l : List β) (g g' : β → Rat) (z : Rat)
    (h : ∀ x ∈ l, g' x = g x - z) :
    (l.map g').sum = (l.map g).sum - (l.length : Rat) * z := by
  induction l with
  | nil => simp
  | cons x xs ih =>
    rw [List.map_cons, List.map_cons, List.sum_cons, List.sum_cons, List.length_cons,
      ih (fun y hy => h y (List.mem_cons_of_mem _ hy)), h x List.mem_cons_self]
    push_cast; ring

theorem mean_map_shift {β : Type} (l : List β) (hne : l ≠ []) (g g' : β → Rat) (z : Rat)
    (h : ∀ x ∈ l, g' x = g x - z) :
    mean (l.map g') = mean (l.map g) - z := by
  rw [mean_rat, mean_rat, sum_map_shift l g g' z h, List.length_map, List.length_map]
  have hn : (l.length : Rat) ≠ 0 := by
    have : l.length ≠ 0 := fun h0 => hne (List.length_eq_zero_iff.mp h0)
    exact_mod_cast this
  field_simp

/-! ### `lookup` through a shift of the offsets -/

theorem lookup_shift (offs : List (Nat × Rat)) (z : Rat) (s : Nat) (h : ∃ v, (s, v) ∈ offs) :
    lookup (offs.map (fun p => (p.1, p.2 - z))) s = lookup offs s - z := by
  unfold lookup
  rw [List.find?_map]
  have hcomp : ((fun p : Nat × Rat => p.1 == s) ∘ fun p : Nat × Rat => (p.1, p.2 - z))
      = fun p : Nat × Rat => p.1 == s := rfl
  rw [hcomp]
  obtain ⟨v, hv⟩ := h
  have hsome : (offs.find? (fun p => p.1 == s)).isSome := by
    rw [List.find?_isSome]
    exact ⟨(s, v), hv, by simp⟩
  obtain ⟨w, hw⟩ := Option.isSome_iff_exists.mp hsome
  rw [hw]
  rfl

/-! ### the master curve after re-origin -/

/-- the value subtracted by `reorigin` at the level `hl` -/
def originOf (a : Aligned Rat) (hl : Int × List (Nat × Rat)) : Rat :=
  mean (hl.2.map (fun st => Num.add (lookup a.offsets st.1) st.2))

theorem reorigin_eq_ok {a a' : Aligned Rat} {ref : Option Int} (h : reorigin a ref = .ok a') :
    ∃ k hl, (match ref with | some k => some k | none => maxLevel a.mapping) = some k ∧
      a.mapping.find? (fun hl => hl.1 == k) = some hl ∧
      a' = { a with offsets := a.offsets.map (fun p => (p.1, p.2 - originOf a hl)) } := by
  unfold reorigin at h
  split at h
  · exact absurd h (by simp)
  · rename_i k hk
    split at h
    · exact absurd h (by simp)
    · rename_i hl hf
      refine ⟨k, hl, hk, hf, ?_⟩
      injection h with h
      exact h.symm

theorem master_zero_core (a : Aligned Rat) (k : Int) (hl : Int × List (Nat × Rat))
    (hc : ∀ hl ∈ a.mapping, hl.2 ≠ [] ∧ ∀ st ∈ hl.2, ∃ v, (st.1, v) ∈ a.offsets)
    (hf : a.mapping.find? (fun hl => hl.1 == k) = some hl) :
    (masterCurve { a with offsets := a.offsets.map (fun p => (p.1, p.2 - originOf a hl)) }).find?
      (fun p => p.1 == k) = some (k, 0) := by
  unfold masterCurve
  rw [List.find?_map]
  have hcomp : ((fun p : Int × Rat => p.1 == k) ∘ fun h' : Int × List (Nat × Rat) =>
      (h'.1, mean (h'.2.map (fun st => Num.add
        (lookup ({ a with offsets := a.offsets.map (fun p => (p.1, p.2 - originOf a hl)) } :
          Aligned Rat).offsets st.1) st.2))))
      = fun h' : Int × List (Nat × Rat) => h'.1 == k := rfl
  show Option.map _ (List.find? _ a.mapping) = _
  rw [hcomp, hf, Option.map_some]
  have hmem : hl ∈ a.mapping := List.mem_of_find?_eq_some hf
  have hk : hl.1 = k := by
    have := List.find?_some hf
    simpa using this
  obtain ⟨hne, hcov⟩ := hc hl hmem
  have hshift := mean_map_shift hl.2 hne
    (fun st => Num.add (lookup a.offsets st.1) st.2)
    (fun st => Num.add (lookup (a.offsets.map (fun p => (p.1, p.2 - originOf a hl))) st.1) st.2)
    (originOf a hl)
    (by
      intro st hst
      rw [num_add_rat, num_add_rat, lookup_shift _ _ _ (hcov st hst)]; ring)
  show some (hl.1, mean (hl.2.map (fun st => Num.add
    (lookup (a.offsets.map (fun p => (p.1, p.2 - originOf a hl))) st.1) st.2))) = _
  rw [hshift, hk]
  show some (k, originOf a hl - originOf a hl) = _
  rw [sub_self]

/-! ### `maxLevel` -/

theorem foldl_max_spec (xs : List Int) (x : Int) :
    x ≤ xs.foldl (fun a b => if a < b then b else a) x ∧
    (∀ y ∈ xs, y ≤ xs.foldl (fun a b => if a < b then b else a) x) ∧
    (xs.foldl (fun a b => if a < b then b else a) x = x ∨
      xs.foldl (fun a b => if a < b then b else a) x ∈ xs) := by
  induction xs generalizing x with
  | nil => simp
  | cons y ys ih =>
    rw [List.foldl_cons]
    obtain ⟨h1, h2, h3⟩ := ih (if x < y then y else x)
    by_cases hxy : x < y
    · rw [if_pos hxy] at h1 h2 h3 ⊢
      refine ⟨by omega, ?_, ?_⟩
      · intro w hw
        rcases List.mem_cons.mp hw with rfl | hw
        · exact h1
        · exact h2 w hw
      · rcases h3 with h3 | h3
        · right; rw [h3]; exact List.mem_cons_self
        · right; exact List.mem_cons_of_mem _ h3
    · rw [if_neg hxy] at h1 h2 h3 ⊢
      refine ⟨h1, ?_, ?_⟩
      · intro w hw
        rcases List.mem_cons.mp hw with rfl | hw
        · omega
        · exact h2 w hw
      · rcases h3 with h3 | h3
        · left; exact h3
        · right; exact List.mem_cons_of_mem _ h3

theorem maxLevel_spec {m : Mapping Rat} {k : Int} (h : maxLevel m = some k) :
    (∀ hl ∈ m, hl.1 ≤ k) ∧ ∃ hl ∈ m, hl.1 = k := by
  unfold maxLevel at h
  split at h
  · exact absurd h (by simp)
  · rename_i x xs hm
    injection h with h
    obtain ⟨h1, h2, h3⟩ := foldl_max_spec xs x
    rw [h] at h1 h2 h3
    have hall : ∀ y ∈ m.map (·.1), y ≤ k := by
      intro y hy
      rw [hm] at hy
      rcases List.mem_cons.mp hy with rfl | hy
      · exact h1
      · exact h2 y hy
    have hk : k ∈ m.map (·.1) := by
      rw [hm]
      rcases h3 with h3 | h3
      · rw [h3]; exact List.mem_cons_self
      · exact List.mem_cons_of_mem _ h3
    refine ⟨fun hl hhl => hall hl.1 (List.mem_map_of_mem hhl), ?_⟩
    obtain ⟨hl, hhl, he⟩ := List.mem_map.mp hk
    exact ⟨hl, hhl, he⟩

/-! ### `refIndex` -/

theorem refIndex_rat (ref step : Rat) :
    refIndex ref step =
      if ((⌊ref / step⌋ : Int) : Rat) = ref / step then .ok ⌊ref / step⌋ else .error .offGrid := by
  unfold refIndex
  simp only [num_div_rat, num_floor_rat, num_ofInt_rat, num_beq_rat, beq_iff_eq]

end Spowtd
