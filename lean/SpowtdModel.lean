import SpowtdModel.Model.Num
import SpowtdModel.Model.Runs
import SpowtdModel.Model.Matching
import SpowtdModel.Model.Classify
import SpowtdModel.Driver.Codec
import SpowtdModel.Driver.ClassifyCmd
