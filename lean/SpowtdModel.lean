-- This module serves as the root of the `SpowtdModel` library.
-- Import modules here that should be built as part of the library.
import SpowtdModel.Basic
