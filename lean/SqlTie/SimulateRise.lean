import SqlTie.Generated
/-
  SQL tie for spowtd/simulate_rise.py.  `SqlTie/Generated.lean` is re-generated from the source on every run by
  tools/gen_sql.py; the list below is the set of statements, in order, from which the hand-written model was
  derived: levels and measured values read from average_rising_depth -- Model/Simulate.lean `tables_layout` (C17, C19).
  Closed by `rfl`: if the module executes anything else, this file no longer checks.
-/
namespace Spowtd.SqlTie
open Spowtd

theorem simulate_rise_sql_decl : GeneratedSql.simulate_rise =
    [{ site := "simulate_rise#0", method := "execute",
        sql := "SELECT mean_crossing_depth_mm AS dynamic_storage_mm, zeta_mm FROM average_rising_depth ORDER BY zeta_mm" }] := rfl

end Spowtd.SqlTie
