import SqlTie.Generated
/-
  SQL tie for spowtd/recession.py.  `SqlTie/Generated.lean` is re-generated from the source on every run by
  tools/gen_sql.py; the list below is the set of statements, in order, from which the hand-written model was
  derived: samples of each interstorm interval, offsets and crossing rows -- Model/Curves.lean, Model/Pipeline.lean (C06, C09, C13).
  Closed by `rfl`: if the module executes anything else, this file no longer checks.
-/
namespace Spowtd.SqlTie
open Spowtd

theorem recession_sql_decl : GeneratedSql.recession =
    [{ site := "compute_offsets#0", method := "execute",
        sql := "SELECT epoch, zeta_mm FROM water_level ORDER BY epoch" },
     { site := "compute_offsets#1", method := "execute",
        sql := "SELECT start_epoch, thru_epoch FROM zeta_interval WHERE interval_type = 'interstorm' ORDER BY start_epoch" },
     { site := "compute_offsets#2", method := "execute",
        sql := "SELECT (grid_interval_mm) FROM zeta_grid" },
     { site := "compute_offsets#3", method := "execute",
        sql := "SELECT EXISTS ( SELECT 1 FROM zeta_interval WHERE start_epoch = ? AND interval_type = 'interstorm' )" },
     { site := "compute_offsets#4", method := "execute",
        sql := "INSERT INTO recession_interval ( start_epoch, time_offset_s) SELECT :start_epoch, :time_offset_s" },
     { site := "compute_offsets#5", method := "execute",
        sql := "INSERT INTO recession_interval_zeta ( start_epoch, zeta_number, mean_crossing_time) SELECT :start_epoch, :discrete_zeta, :mean_crossing_time_s" }] := rfl

end Spowtd.SqlTie
