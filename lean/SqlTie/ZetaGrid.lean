import SqlTie.Generated
/-
  SQL tie for spowtd/zeta_grid.py.  `SqlTie/Generated.lean` is re-generated from the source on every run by
  tools/gen_sql.py; the list below is the set of statements, in order, from which the hand-written model was
  derived: singleton zeta_grid row and the discrete levels min..max -- Model/Curves.lean `zetaGrid` (C13), Model/Txn.lean (C20).
  Closed by `rfl`: if the module executes anything else, this file no longer checks.
-/
namespace Spowtd.SqlTie
open Spowtd

theorem zeta_grid_sql_decl : GeneratedSql.zeta_grid =
    [{ site := "populate_zeta_grid#0", method := "execute",
        sql := "INSERT INTO zeta_grid (grid_interval_mm) VALUES (?)" },
     { site := "populate_zeta_grid#1", method := "execute",
        sql := "SELECT min(zeta_mm), max(zeta_mm) FROM water_level" },
     { site := "populate_zeta_grid#2", method := "executemany",
        sql := "INSERT INTO discrete_zeta (zeta_number) VALUES (?)" }] := rfl

end Spowtd.SqlTie
