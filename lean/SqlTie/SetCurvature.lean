import SqlTie.Generated
/-
  SQL tie for spowtd/set_curvature.py.  `SqlTie/Generated.lean` is re-generated from the source on every run by
  tools/gen_sql.py; the list below is the set of statements, in order, from which the hand-written model was
  derived: the single curvature row -- Model/Txn.lean (C20).
  Closed by `rfl`: if the module executes anything else, this file no longer checks.
-/
namespace Spowtd.SqlTie
open Spowtd

theorem set_curvature_sql_decl : GeneratedSql.set_curvature =
    [{ site := "set_curvature#0", method := "execute",
        sql := "INSERT INTO curvature (curvature_m_km2) VALUES (?)" }] := rfl

end Spowtd.SqlTie
