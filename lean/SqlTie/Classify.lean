import SqlTie.Generated
/-
  SQL tie for spowtd/classify.py.  `SqlTie/Generated.lean` is re-generated from the source on every run by
  tools/gen_sql.py; the list below is the set of statements, in order, from which the hand-written model was
  derived: threshold row, storms from rainfall runs, rises and per-step flags from the three-way join with water_level, the pairing tables -- Model/Classify.lean (C01, C03, C04, C07); statement order of Model/Txn.lean (C20).
  Closed by `rfl`: if the module executes anything else, this file no longer checks.
-/
namespace Spowtd.SqlTie
open Spowtd

theorem classify_sql_decl : GeneratedSql.classify =
    [{ site := "classify_intervals#0", method := "execute",
        sql := "INSERT INTO thresholds (storm_rain_threshold_mm_h, rising_jump_threshold_mm_h) VALUES (:storm_rain_threshold_mm_h, :rising_jump_threshold_mm_h)" },
     { site := "classify_intervals#1", method := "execute",
        sql := "SELECT DISTINCT data_interval FROM grid_time JOIN water_level USING (epoch) WHERE data_interval IS NOT NULL ORDER BY data_interval" },
     { site := "classify_interstorms#0", method := "execute",
        sql := "SELECT water_level.epoch, zeta_mm, rainfall_intensity_mm_h > 0 AS is_raining FROM grid_time JOIN rainfall_intensity ON rainfall_intensity.from_epoch = grid_time.epoch AND grid_time.data_interval = ? JOIN water_level ON rainfall_intensity.from_epoch = water_level.epoch ORDER BY from_epoch" },
     { site := "classify_interstorms#1", method := "execute",
        sql := "SELECT CAST(time_step_s AS double precision) / 3600. FROM time_grid" },
     { site := "classify_interstorms#2", method := "executemany",
        sql := "INSERT INTO grid_time_flags (start_epoch, is_jump, is_mystery_jump, is_interstorm) VALUES (?, ?, ?, ?)" },
     { site := "classify_interstorms#3", method := "execute",
        sql := "INSERT INTO zeta_interval (start_epoch, interval_type, thru_epoch) SELECT :start_epoch, :interval_type, :thru_epoch" },
     { site := "match_all_storms#0", method := "execute",
        sql := "SELECT water_level.epoch, zeta_mm, rainfall_intensity_mm_h FROM grid_time JOIN rainfall_intensity ON rainfall_intensity.from_epoch = grid_time.epoch AND grid_time.data_interval = ? JOIN water_level ON rainfall_intensity.from_epoch = water_level.epoch ORDER BY from_epoch" },
     { site := "match_all_storms#1", method := "execute",
        sql := "SELECT time_step_s, CAST(time_step_s AS double precision) / 3600. FROM time_grid" },
     { site := "match_all_storms#2", method := "execute",
        sql := "SELECT EXISTS ( SELECT 1 FROM storm WHERE start_epoch = :start_epoch AND thru_epoch = :thru_epoch )" },
     { site := "match_all_storms#3", method := "execute",
        sql := "INSERT INTO storm (start_epoch, thru_epoch) SELECT :start_epoch, :thru_epoch" },
     { site := "match_all_storms#4", method := "execute",
        sql := "INSERT INTO zeta_interval (start_epoch, interval_type, thru_epoch) VALUES (:start_epoch, :interval_type, :thru_epoch)" },
     { site := "match_all_storms#5", method := "execute",
        sql := "INSERT INTO zeta_interval_storm (interval_start_epoch, interval_type, storm_start_epoch) VALUES (:interval_start_epoch, :interval_type, :storm_start_epoch)" }] := rfl

end Spowtd.SqlTie
