import SqlTie.Generated
/-
  SQL tie for spowtd/simulate_recession.py.  `SqlTie/Generated.lean` is re-generated from the source on every run by
  tools/gen_sql.py; the list below is the set of statements, in order, from which the hand-written model was
  derived: curvature, levels of average_recession_time and the mean ET over the steps of the recession intervals -- Model/Simulate.lean `meanET` (C18, C19).
  Closed by `rfl`: if the module executes anything else, this file no longer checks.
-/
namespace Spowtd.SqlTie
open Spowtd

theorem simulate_recession_sql_decl : GeneratedSql.simulate_recession =
    [{ site := "simulate_recession#0", method := "execute",
        sql := "SELECT EXISTS (SELECT 1 FROM curvature WHERE is_valid)" },
     { site := "simulate_recession#1", method := "execute",
        sql := "SELECT curvature_m_km2 FROM curvature" },
     { site := "simulate_recession#2", method := "execute",
        sql := "SELECT CAST(elapsed_time_s AS double precision) / (3600 * 24) AS elapsed_time_d, zeta_mm / 10 AS zeta_cm FROM average_recession_time ORDER BY zeta_mm" },
     { site := "simulate_recession#3", method := "execute",
        sql := "SELECT avg(evapotranspiration_mm_h) * 24 AS evapotranspiration_mm_d FROM recession_interval AS ri JOIN zeta_interval AS zi ON zi.start_epoch = ri.start_epoch AND zi.interval_type = 'interstorm' JOIN evapotranspiration AS e ON e.from_epoch >= zi.start_epoch AND e.from_epoch < zi.thru_epoch" }] := rfl

end Spowtd.SqlTie
