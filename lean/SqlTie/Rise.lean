import SqlTie.Generated
/-
  SQL tie for spowtd/rise.py.  `SqlTie/Generated.lean` is re-generated from the source on every run by
  tools/gen_sql.py; the list below is the set of statements, in order, from which the hand-written model was
  derived: series of each matched rise (initial/final level, storm depth), offsets and crossing rows -- Model/Curves.lean, Model/Pipeline.lean (C06, C09, C13).
  Closed by `rfl`: if the module executes anything else, this file no longer checks.
-/
namespace Spowtd.SqlTie
open Spowtd

theorem rise_sql_decl : GeneratedSql.rise =
    [{ site := "compute_rise_offsets#0", method := "execute",
        sql := "SELECT epoch, zeta_mm FROM water_level ORDER BY epoch" },
     { site := "compute_rise_offsets#1", method := "execute",
        sql := "SELECT s.start_epoch, s.thru_epoch, zi.start_epoch, zi.thru_epoch FROM storm AS s JOIN zeta_interval_storm AS zis ON s.start_epoch = zis.storm_start_epoch JOIN zeta_interval AS zi ON zi.start_epoch = zis.interval_start_epoch ORDER BY s.start_epoch" },
     { site := "compute_rise_offsets#2", method := "execute",
        sql := "SELECT total_depth_mm FROM storm_total_rain_depth WHERE storm_start_epoch = :storm_start_epoch" },
     { site := "compute_rise_offsets#3", method := "execute",
        sql := "SELECT (grid_interval_mm) FROM zeta_grid" },
     { site := "compute_rise_offsets#4", method := "execute",
        sql := "INSERT INTO rising_interval ( start_epoch, rain_depth_offset_mm) SELECT :start_epoch, :rain_depth_offset_mm" },
     { site := "compute_rise_offsets#5", method := "execute",
        sql := "INSERT INTO rising_interval_zeta ( start_epoch, zeta_number, mean_crossing_depth_mm) SELECT :start_epoch, :discrete_zeta, :mean_crossing_depth_mm" }] := rfl

end Spowtd.SqlTie
