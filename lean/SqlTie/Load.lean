import SqlTie.Generated
/-
  SQL tie for spowtd/load.py.  `SqlTie/Generated.lean` is re-generated from the source on every run by
  tools/gen_sql.py; the list below is the set of statements, in order, from which the hand-written model was
  derived: staging inserts, grid construction and the gap labelling of Model/Load.lean (C10, C11); statement order of Model/Txn.lean (C20).
  Closed by `rfl`: if the module executes anything else, this file no longer checks.
-/
namespace Spowtd.SqlTie
open Spowtd

theorem load_sql_decl : GeneratedSql.load =
    [{ site := "load_data#0", method := "execute",
        sql := "PRAGMA foreign_keys = 1" },
     { site := "load_data#1", method := "execute",
        sql := "SELECT name FROM sqlite_master WHERE type='table'" },
     { site := "load_data#2", method := "executescript",
        sql := "<expr> schema_file.read()" },
     { site := "load_data#3", method := "executemany",
        sql := "INSERT INTO rainfall_intensity_staging (epoch, rainfall_intensity_mm_h) VALUES (?, ?)" },
     { site := "load_data#4", method := "executemany",
        sql := "INSERT INTO evapotranspiration_staging (epoch, evapotranspiration_mm_h) VALUES (?, ?)" },
     { site := "load_data#5", method := "executemany",
        sql := "INSERT INTO water_level_staging (epoch, zeta_mm) VALUES (?, ?)" },
     { site := "populate_water_level#0", method := "execute",
        sql := "SELECT epoch, zeta_mm FROM water_level_staging" },
     { site := "populate_water_level#1", method := "executemany",
        sql := "UPDATE grid_time SET data_interval = ? WHERE epoch = ?" },
     { site := "populate_water_level#2", method := "executemany",
        sql := "INSERT INTO water_level (epoch, zeta_mm) VALUES (?, ?)" },
     { site := "populate_grid_time#0", method := "execute",
        sql := "WITH a AS ( SELECT min(epoch) AS min_t_zeta, max(epoch) AS max_t_zeta FROM water_level_staging ) SELECT epoch FROM rainfall_intensity_staging AS ris JOIN a ON ris.epoch >= min_t_zeta AND ris.epoch <= max_t_zeta ORDER BY epoch" },
     { site := "populate_grid_time#1", method := "execute",
        sql := "INSERT INTO time_grid (source_time_zone, time_step_s) VALUES (?, ?)" },
     { site := "populate_grid_time#2", method := "executemany",
        sql := "INSERT INTO grid_time (epoch) VALUES (?)" },
     { site := "populate_rainfall_intensity#0", method := "execute",
        sql := "INSERT INTO rainfall_intensity (from_epoch, thru_epoch, rainfall_intensity_mm_h) SELECT ris.epoch, ris.epoch + ?, rainfall_intensity_mm_h FROM rainfall_intensity_staging AS ris JOIN grid_time AS gt USING (epoch) WHERE ris.epoch <= ?" },
     { site := "populate_evapotranspiration#0", method := "execute",
        sql := "SELECT epoch FROM grid_time AS gt WHERE NOT EXISTS ( SELECT 1 FROM evapotranspiration_staging AS es WHERE es.epoch = gt.epoch ) ORDER BY epoch" },
     { site := "populate_evapotranspiration#1", method := "execute",
        sql := "INSERT INTO evapotranspiration (from_epoch, thru_epoch, evapotranspiration_mm_h) SELECT es.epoch, es.epoch + ?, evapotranspiration_mm_h FROM evapotranspiration_staging AS es JOIN grid_time AS gt USING (epoch) WHERE es.epoch <= ?" }] := rfl

end Spowtd.SqlTie
