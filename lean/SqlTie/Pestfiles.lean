import SqlTie.Generated
/-
  SQL tie for spowtd/pestfiles.py.  `SqlTie/Generated.lean` is re-generated from the source on every run by
  tools/gen_sql.py; the list below is the set of statements, in order, from which the hand-written model was
  derived: observation values read from the two master-curve views -- Model/Pest.lean (C19).
  Closed by `rfl`: if the module executes anything else, this file no longer checks.
-/
namespace Spowtd.SqlTie
open Spowtd

theorem pestfiles_sql_decl : GeneratedSql.pestfiles =
    [{ site := "generate_rise_ins_file#0", method := "execute",
        sql := "SELECT count(distinct zeta_number) FROM rising_interval_zeta" },
     { site := "generate_rise_pst_file#0", method := "execute",
        sql := "SELECT count(distinct zeta_number) FROM rising_interval_zeta" },
     { site := "generate_rise_pst_file#1", method := "execute",
        sql := "SELECT mean_crossing_depth_mm AS dynamic_storage_mm FROM average_rising_depth ORDER BY zeta_mm" },
     { site := "generate_curves_ins_file#0", method := "execute",
        sql := "SELECT count(distinct zeta_number) FROM rising_interval_zeta" },
     { site := "generate_curves_ins_file#1", method := "execute",
        sql := "SELECT count(distinct zeta_number) FROM recession_interval_zeta" },
     { site := "generate_curves_pst_file#0", method := "execute",
        sql := "SELECT mean_crossing_depth_mm AS dynamic_storage_mm FROM average_rising_depth ORDER BY zeta_mm" },
     { site := "generate_curves_pst_file#1", method := "execute",
        sql := "SELECT CAST(elapsed_time_s AS double precision) / (3600 * 24) AS elapsed_time_d FROM average_recession_time ORDER BY zeta_mm DESC" }] := rfl

end Spowtd.SqlTie
