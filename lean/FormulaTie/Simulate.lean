import FormulaTie.GenSimulate
import SpowtdModel.Model.Simulate
/-
  Tie: centring of the simulated curves, the recession integrand and the unit conversions of
  simulate_rise.py / simulate_recession.py, translated from the source on every run.
-/
namespace Spowtd.FormulaTie
open Spowtd

variable {α : Type} [Num α]

/-- `W_mm += mean_storage_mm - W_mm.mean()` -/
theorem centre_is_source_rise (w : List α) (mean : α) :
    centre w mean = w.map (fun v => Num.add v (Gen.riseShift mean (Num.div (Num.sum w) (Num.ofInt w.length)))) := rfl

/-- `elapsed_time_d += mean_elapsed_time_d - elapsed_time_d.mean()` -/
theorem centre_is_source_recession (w : List α) (mean : α) :
    centre w mean = w.map (fun v => Num.add v (Gen.recessionShift mean (Num.div (Num.sum w) (Num.ofInt w.length)))) := rfl

/-- `Sy(z) / (-et - curvature * T(z))` -/
theorem integrand_is_source {α : Type} [NumT α] (sy T : α → α) (et kappa z : α) :
    recessionIntegrand sy T et kappa z = Gen.integrand sy T et kappa z := rfl

theorem units_is_source (T : α → α) (z c zcm : α) :
    perDay T z = Gen.peatclsmPerDay T z ∧ curvatureKm c = Gen.curvaturePerKm c ∧ levelMm zcm = Gen.gridMm zcm :=
  ⟨rfl, rfl, rfl⟩

end Spowtd.FormulaTie
