import FormulaTie.GenClassify
import SpowtdModel.Model.Classify
import SpowtdModel.Model.Runs
/-
  Tie: thresholds and flags of classify.py (translated from the source on every run) are those of the model.
  `time_step_h` is what the query `SELECT CAST(time_step_s AS double precision) / 3600. FROM time_grid`
  returns (pinned by SqlTie/Classify.lean): `dt / 3600`.
-/
namespace Spowtd.FormulaTie
open Spowtd

variable {α : Type} [Num α]

/-- `time_step_h` -/
def stepH (dt : Int) : α := Num.div (Num.ofInt dt) (Num.ofInt 3600)

/-- match_all_storms: the threshold on one step's increment -/
theorem jumpDelta_is_source (j : α) (dt : Int) : jumpDelta j dt = Gen.jumpDeltaThreshold j (stepH dt) := rfl

/-- match_storms: a step belongs to a rise iff `np.diff(head) > jump_threshold` -/
theorem jumps_is_source (j : α) (dt : Int) (z : List α) :
    jumps j dt z = (incs z).map (Gen.matchIsJump (Gen.jumpDeltaThreshold j (stepH dt))) := rfl

/-- match_storms / match_all_storms: a step belongs to a storm iff `rain > threshold` -/
theorem heavy_is_source (s : α) (r : List α) :
    heavy s r = r.map (Gen.matchIsRaining s) ∧ heavy s r = r.map (Gen.isStorm s) := ⟨rfl, rfl⟩

/-- classify_interstorms: `increments = concatenate(([0], zeta[1:] - zeta[:-1]))`, `is_jump = increments > j * time_step_h` -/
theorem flagJump_is_source (j : α) (dt : Int) (z0 : α) (z : List α) :
    flagJump j dt (z0 :: z) =
      Gen.interstormIsJump j (stepH dt) ((Gen.interstormIncrement z0 z0).headD z0) ::
        (incs (z0 :: z)).map (Gen.interstormIsJump j (stepH dt)) := rfl

/-- the element-wise part of `increments` is the model's `incs`: later minus earlier -/
theorem incs_is_source (z : List α) :
    incs z = List.zipWith (fun b a => (Gen.interstormIncrement b a).getLastD b) z.tail z := rfl

/-- get_mystery_jump_mask: the loop starts in the "unexplained" state ... -/
theorem mysteryMask_init_is_source (isJump isWet : List Bool) :
    mysteryMask isJump isWet = mysteryAux Gen.mysteryInit isJump isWet := rfl

/-- ... and one pass of its body is one step of the model's state machine: rain resets the state, a rise
    without rain sets it, and the flag written for the sample is the new state -/
theorem mysteryAux_step_is_source (st j w : Bool) (js ws : List Bool) :
    mysteryAux st (j :: js) (w :: ws) = Gen.mysteryStep st j w :: mysteryAux (Gen.mysteryStep st j w) js ws := rfl

/-- match_all_storms: a storm is recorded from the start of its first rainy step through the end of its
    last one, `int(epoch[rain_stop - 1]) + time_step_s`; a rise from its first to its last sample,
    `int(epoch[jump_start])` … `int(epoch[jump_stop - 1])` (the source's `jump_stop` is one past the last sample,
    the model's run `[a, b)` is over increments, so its last sample is `b`) -/
theorem epochs_are_source (eFirst eLast step : Int) :
    stormThru eLast step = Gen.stormThruEpoch eLast step ∧ Gen.stormStartEpoch eFirst = eFirst ∧
    Gen.jumpStartEpoch eFirst = eFirst ∧ Gen.jumpThruEpoch eLast = eLast := ⟨rfl, rfl, rfl, rfl⟩

end Spowtd.FormulaTie
