import FormulaTie.GenRegrid
import SpowtdModel.Model.Regrid
/-
  Tie: which levels a segment crosses, as regrid.regrid decides it (translated from the source on every run).
-/
namespace Spowtd.FormulaTie
open Spowtd

theorem crossingsPair_is_source {α : Type} [Num α] (step x0 y0 x1 y1 : α) :
    (crossingsPair step x0 y0 x1 y1).map (·.1) =
      (let c0 := Gen.ceilOf (Gen.scaled y0 step)
       let c1 := Gen.ceilOf (Gen.scaled y1 step)
       if Gen.ascending c0 c1 then intRange c0 c1 else (intRange c1 c0).reverse) := by
  simp only [crossingsPair, Gen.ceilOf, Gen.scaled, Gen.ascending, List.map_map]
  split <;> simp [Function.comp_def, *]

end Spowtd.FormulaTie
