import FormulaTie.GenSpline
import SpowtdModel.Model.Spline
/-
  Tie: spline.Spline.__call__ (clamping) and spline.Spline.integrate (three pieces), translated from the
  source on every run, are the model's `clampTo` and `integrateExt`.  The recursive call for reversed limits
  is a parameter of the translated body; under its guard (`a > b`) it runs the core with the limits swapped.
-/
namespace Spowtd.FormulaTie
open Spowtd

variable {α : Type} [Num α]

theorem clampTo_is_source (xmin xmax x : α) : clampTo xmin xmax x = Gen.clamp xmin xmax x := rfl

theorem integrateExt_is_source (inner : α → α) (splint : α → α → α) (xmin xmax a b : α) :
    integrateExt inner splint xmin xmax a b =
      Gen.integrate inner splint xmin xmax a b (integrateCore inner splint xmin xmax b a) := rfl

end Spowtd.FormulaTie
