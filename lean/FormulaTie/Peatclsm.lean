import FormulaTie.GenPeatclsm
import SpowtdModel.Model.Hydraulic
/-
  Tie: PeatclsmTransmissivity.__call__ (guard and value) and campbell_1d_az, translated from the source on
  every run, are the model's `tPeatclsm` and `campbell`.
-/
namespace Spowtd.FormulaTie
open Spowtd

variable {α : Type} [NumT α]

/-- one level: refused exactly when the translated guard holds, else the translated value -/
theorem tPeatclsm_is_source (K0 alpha zmax z : α) :
    tPeatclsm K0 alpha zmax z =
      if Gen.tRefused zmax [z] then .error .aboveMax else .ok (Gen.tValue K0 alpha zmax z) := by
  simp only [tPeatclsm, Gen.tRefused, Gen.tValue, List.any_cons, List.any_nil, Bool.or_false]

/-- an array of levels is refused iff one of its levels is -/
theorem tRefused_iff_any (K0 alpha zmax : α) (levels : List α) :
    Gen.tRefused zmax levels = true ↔ ∃ z ∈ levels, tPeatclsm K0 alpha zmax z = .error .aboveMax := by
  simp only [Gen.tRefused, List.any_eq_true]
  constructor
  · rintro ⟨z, hz, h⟩
    exact ⟨z, hz, by simp only [tPeatclsm, h, if_true]⟩
  · rintro ⟨z, hz, h⟩
    refine ⟨z, hz, ?_⟩
    simp only [tPeatclsm] at h
    split at h
    · assumption
    · cases h

theorem campbell_is_source (Fs z zlu thetaS psiS b : α) :
    Spowtd.campbell Fs z zlu thetaS psiS b = Gen.campbell Fs z zlu thetaS psiS b := rfl

end Spowtd.FormulaTie
