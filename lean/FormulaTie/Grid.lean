import FormulaTie.GenGrid
import SpowtdModel.Model.Curves
/-
  Tie: the bounds of the level grid, as `zeta_grid.populate_zeta_grid` computes them (translated from the
  source by tools/gen_formulas.py on every run), are the bounds of the model's `zetaGrid`.
-/
namespace Spowtd.FormulaTie
open Spowtd

theorem zetaGrid_is_source {α : Type} [Num α] (zmin zmax step : α) :
    zetaGrid zmin zmax step = intRange (Gen.gridLo zmin step) (Gen.gridHi zmax step) := rfl

end Spowtd.FormulaTie
