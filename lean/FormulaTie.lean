import FormulaTie.Grid
import FormulaTie.Classify
import FormulaTie.Regrid
import FormulaTie.Spline
import FormulaTie.Peatclsm
import FormulaTie.Simulate
