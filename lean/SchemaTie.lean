import SchemaTie.Generated
import SchemaTie.Names
import SchemaTie.Load
import SchemaTie.Classify
import SchemaTie.Curves
