import SchemaTie.Generated
/- Schema tie: the set of tables and views (a table or view added to schema.sql is outside the model). -/
namespace Spowtd.SchemaTie
open Spowtd

theorem tables_decl : Generated.tableNames =
    ["rainfall_intensity_staging", "water_level_staging", "evapotranspiration_staging", "time_grid", "grid_time",
     "thresholds", "grid_time_flags", "rainfall_intensity", "evapotranspiration", "water_level", "storm",
     "zeta_interval", "zeta_interval_storm", "zeta_grid", "discrete_zeta", "rising_interval", "recession_interval",
     "rising_interval_zeta", "recession_interval_zeta", "curvature"] := rfl

theorem views_decl : Generated.viewNames =
    ["storm_total_rain_depth", "average_recession_time", "average_rising_depth", "storm_total_rise",
     "rising_curve_line_segment"] := rfl

end Spowtd.SchemaTie
