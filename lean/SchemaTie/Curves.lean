import SchemaTie.Generated
/-
  Schema tie (tables and views behind the master curves).  `SchemaTie/Generated.lean` is re-generated from spowtd/schema.sql on every run by
  tools/gen_schema.py; the statements below are what the model and its proofs assume about the tables
  and views of this group.  They are closed by `rfl`: if schema.sql declares anything else, this file no
  longer checks and the checks of C09, C13 and C19 report that the proofs no longer cover the code.

  * rising_interval_zeta / recession_interval_zeta PRIMARY KEY (start_epoch, zeta_number):
    `curve_rows_keyed`, `meanCrossings_levels_nodup`, `series_of_row_unique`.
  * rising_interval REFERENCES zeta_interval_storm, recession_interval REFERENCES zeta_interval
    (interstorm): `rising_rows_keyed_by_matched_rise`, `recession_rows_keyed_by_interstorm`.
  * discrete_zeta PRIMARY KEY (zeta_number): `zetaGrid_mem`, `levels_in_grid`.
  * views average_rising_depth / average_recession_time: level = zeta_number * grid_interval_mm, value =
    AVG(offset + mean crossing) per level -- Model/Pipeline.lean `masterCurve` (`master_zero_at_reference`).
  * view storm_total_rain_depth: SUM(intensity * step / 3600) over the storm's steps -- `rain_depth_steps`.
-/
namespace Spowtd.SchemaTie
open Spowtd

theorem zeta_grid_decl : Generated.zeta_grid =
    { name := "zeta_grid"
      cols := [{ name := "id", type := "boolean", notnull := false, default := some "TRUE" },
               { name := "grid_interval_mm", type := "double precision", notnull := true, default := none }]
      pk := ["id"]
      uniques := []
      checks := ["id = TRUE"]
      fks := [] } := rfl

theorem discrete_zeta_decl : Generated.discrete_zeta =
    { name := "discrete_zeta"
      cols := [{ name := "zeta_number", type := "integer", notnull := false, default := none },
               { name := "zeta_grid", type := "boolean", notnull := true, default := some "TRUE" }]
      pk := ["zeta_number"]
      uniques := []
      checks := []
      fks := [{ cols := ["zeta_grid"], table := "zeta_grid", refcols := ["id"] }] } := rfl

theorem rising_interval_decl : Generated.rising_interval =
    { name := "rising_interval"
      cols := [{ name := "start_epoch", type := "integer", notnull := true, default := none },
               { name := "interval_type", type := "text", notnull := true, default := some "'storm'" },
               { name := "rain_depth_offset_mm", type := "double precision", notnull := true, default := none }]
      pk := ["start_epoch"]
      uniques := []
      checks := ["interval_type = 'storm'"]
      fks := [{ cols := ["start_epoch"], table := "zeta_interval_storm", refcols := ["interval_start_epoch"] }] } := rfl

theorem recession_interval_decl : Generated.recession_interval =
    { name := "recession_interval"
      cols := [{ name := "start_epoch", type := "integer", notnull := true, default := none },
               { name := "interval_type", type := "text", notnull := true, default := some "'interstorm'" },
               { name := "time_offset_s", type := "double precision", notnull := true, default := none }]
      pk := ["start_epoch"]
      uniques := []
      checks := ["interval_type = 'interstorm'"]
      fks := [{ cols := ["start_epoch", "interval_type"], table := "zeta_interval", refcols := ["start_epoch", "interval_type"] }] } := rfl

theorem rising_interval_zeta_decl : Generated.rising_interval_zeta =
    { name := "rising_interval_zeta"
      cols := [{ name := "start_epoch", type := "integer", notnull := true, default := none },
               { name := "zeta_number", type := "integer", notnull := true, default := none },
               { name := "mean_crossing_depth_mm", type := "double precision", notnull := true, default := none }]
      pk := ["start_epoch", "zeta_number"]
      uniques := []
      checks := []
      fks := [{ cols := ["start_epoch"], table := "rising_interval", refcols := ["start_epoch"] },
              { cols := ["zeta_number"], table := "discrete_zeta", refcols := ["zeta_number"] }] } := rfl

theorem recession_interval_zeta_decl : Generated.recession_interval_zeta =
    { name := "recession_interval_zeta"
      cols := [{ name := "start_epoch", type := "integer", notnull := true, default := none },
               { name := "zeta_number", type := "integer", notnull := true, default := none },
               { name := "mean_crossing_time", type := "interval", notnull := true, default := none }]
      pk := ["start_epoch", "zeta_number"]
      uniques := []
      checks := []
      fks := [{ cols := ["start_epoch"], table := "recession_interval", refcols := ["start_epoch"] },
              { cols := ["zeta_number"], table := "discrete_zeta", refcols := ["zeta_number"] }] } := rfl

theorem curvature_decl : Generated.curvature =
    { name := "curvature"
      cols := [{ name := "curvature_m_km2", type := "double precision", notnull := true, default := none },
               { name := "is_valid", type := "integer", notnull := true, default := some "1" }]
      pk := ["is_valid"]
      uniques := []
      checks := ["is_valid = 1"]
      fks := [] } := rfl

theorem view_storm_total_rain_depth_decl : Generated.view_storm_total_rain_depth =
    "CREATE VIEW storm_total_rain_depth AS SELECT s.start_epoch AS storm_start_epoch, SUM(ri.rainfall_intensity_mm_h * (ri.thru_epoch - ri.from_epoch) / 3600. ) AS total_depth_mm FROM storm AS s JOIN rainfall_intensity AS ri ON ri.from_epoch >= s.start_epoch AND ri.thru_epoch <= s.thru_epoch GROUP BY s.start_epoch" := rfl

theorem view_average_recession_time_decl : Generated.view_average_recession_time =
    "CREATE VIEW average_recession_time AS SELECT zeta_number * zg.grid_interval_mm AS zeta_mm, AVG(time_offset_s + mean_crossing_time) AS elapsed_time_s FROM recession_interval AS ri JOIN recession_interval_zeta USING (start_epoch) JOIN discrete_zeta AS dz USING (zeta_number) JOIN zeta_grid AS zg ON zg.id = dz.zeta_grid GROUP BY zeta_number, grid_interval_mm" := rfl

theorem view_average_rising_depth_decl : Generated.view_average_rising_depth =
    "CREATE VIEW average_rising_depth AS SELECT zeta_number * zg.grid_interval_mm AS zeta_mm, AVG(rain_depth_offset_mm + mean_crossing_depth_mm) AS mean_crossing_depth_mm FROM rising_interval AS ri JOIN rising_interval_zeta USING (start_epoch) JOIN discrete_zeta AS dz USING (zeta_number) JOIN zeta_grid AS zg ON zg.id = dz.zeta_grid GROUP BY zeta_number, grid_interval_mm" := rfl

theorem view_storm_total_rise_decl : Generated.view_storm_total_rise =
    "CREATE VIEW storm_total_rise AS SELECT zis.storm_start_epoch, zis.interval_start_epoch, iz.zeta_mm AS initial_zeta_mm, fz.zeta_mm AS final_zeta_mm FROM zeta_interval_storm AS zis JOIN zeta_interval AS zi ON zis.interval_start_epoch = zi.start_epoch JOIN water_level AS iz ON iz.epoch = zi.start_epoch JOIN water_level AS fz ON fz.epoch = zi.thru_epoch" := rfl

theorem view_rising_curve_line_segment_decl : Generated.view_rising_curve_line_segment =
    "CREATE VIEW rising_curve_line_segment AS SELECT interval_start_epoch, ri.rain_depth_offset_mm, total_depth_mm AS rain_total_depth_mm, initial_zeta_mm, final_zeta_mm FROM storm_total_rise AS str JOIN storm_total_rain_depth AS strd USING (storm_start_epoch) JOIN rising_interval AS ri ON ri.start_epoch = str.interval_start_epoch" := rfl

end Spowtd.SchemaTie
