import SchemaTie.Generated
/-
  Schema tie (tables written by `load`).  `SchemaTie/Generated.lean` is re-generated from spowtd/schema.sql on every run by
  tools/gen_schema.py; the statements below are what the model and its proofs assume about the tables
  and views of this group.  They are closed by `rfl`: if schema.sql declares anything else, this file no
  longer checks and the checks of C10 and C11 report that the proofs no longer cover the code.

  * PRIMARY KEY (epoch) of the staging tables: a timestamp repeated in a source file is refused
    (Model/Load.lean `duplicate`, theorem `load_ok_conditions`).
  * grid_time.epoch / rainfall_intensity.from_epoch / evapotranspiration.from_epoch / water_level.epoch
    keys: `grid_uniform`, `rain_et_copied`, `et_complete`, `level_outside_gaps` (one row per grid step).
  * CHECK (from_epoch < thru_epoch): `grid_uniform` (thru = from + step, step > 0).
  * time_grid has a single row (is_valid = 1): a second `load` is refused (`load_refuses_populated`).
-/
namespace Spowtd.SchemaTie
open Spowtd

theorem rainfall_intensity_staging_decl : Generated.rainfall_intensity_staging =
    { name := "rainfall_intensity_staging"
      cols := [{ name := "epoch", type := "integer", notnull := true, default := none },
               { name := "rainfall_intensity_mm_h", type := "double precision", notnull := true, default := none }]
      pk := ["epoch"]
      uniques := []
      checks := []
      fks := [] } := rfl

theorem water_level_staging_decl : Generated.water_level_staging =
    { name := "water_level_staging"
      cols := [{ name := "epoch", type := "integer", notnull := true, default := none },
               { name := "zeta_mm", type := "double precision", notnull := true, default := none }]
      pk := ["epoch"]
      uniques := []
      checks := []
      fks := [] } := rfl

theorem evapotranspiration_staging_decl : Generated.evapotranspiration_staging =
    { name := "evapotranspiration_staging"
      cols := [{ name := "epoch", type := "integer", notnull := true, default := none },
               { name := "evapotranspiration_mm_h", type := "double precision", notnull := true, default := none }]
      pk := ["epoch"]
      uniques := []
      checks := []
      fks := [] } := rfl

theorem time_grid_decl : Generated.time_grid =
    { name := "time_grid"
      cols := [{ name := "time_step_s", type := "integer", notnull := true, default := none },
               { name := "source_time_zone", type := "text", notnull := true, default := none },
               { name := "is_valid", type := "integer", notnull := true, default := some "1" }]
      pk := ["is_valid"]
      uniques := []
      checks := ["is_valid = 1"]
      fks := [] } := rfl

theorem grid_time_decl : Generated.grid_time =
    { name := "grid_time"
      cols := [{ name := "epoch", type := "integer", notnull := true, default := none },
               { name := "data_interval", type := "integer", notnull := false, default := none }]
      pk := ["epoch"]
      uniques := []
      checks := []
      fks := [] } := rfl

theorem rainfall_intensity_decl : Generated.rainfall_intensity =
    { name := "rainfall_intensity"
      cols := [{ name := "from_epoch", type := "integer", notnull := true, default := none },
               { name := "thru_epoch", type := "integer", notnull := true, default := none },
               { name := "rainfall_intensity_mm_h", type := "double precision", notnull := true, default := none }]
      pk := ["from_epoch"]
      uniques := []
      checks := ["from_epoch < thru_epoch"]
      fks := [{ cols := ["from_epoch"], table := "grid_time", refcols := ["epoch"] },
              { cols := ["thru_epoch"], table := "grid_time", refcols := ["epoch"] }] } := rfl

theorem evapotranspiration_decl : Generated.evapotranspiration =
    { name := "evapotranspiration"
      cols := [{ name := "from_epoch", type := "integer", notnull := true, default := none },
               { name := "thru_epoch", type := "integer", notnull := true, default := none },
               { name := "evapotranspiration_mm_h", type := "double precision", notnull := true, default := none }]
      pk := ["from_epoch"]
      uniques := []
      checks := ["from_epoch < thru_epoch"]
      fks := [{ cols := ["from_epoch"], table := "grid_time", refcols := ["epoch"] },
              { cols := ["thru_epoch"], table := "grid_time", refcols := ["epoch"] }] } := rfl

theorem water_level_decl : Generated.water_level =
    { name := "water_level"
      cols := [{ name := "epoch", type := "integer", notnull := true, default := none },
               { name := "zeta_mm", type := "double precision", notnull := true, default := none }]
      pk := ["epoch"]
      uniques := []
      checks := []
      fks := [{ cols := ["epoch"], table := "grid_time", refcols := ["epoch"] }] } := rfl

end Spowtd.SchemaTie
