import SchemaTie.Generated
/-
  Schema tie (tables written by `classify`).  `SchemaTie/Generated.lean` is re-generated from spowtd/schema.sql on every run by
  tools/gen_schema.py; the statements below are what the model and its proofs assume about the tables
  and views of this group.  They are closed by `rfl`: if schema.sql declares anything else, this file no
  longer checks and the checks of C01, C03, C04 and C20 report that the proofs no longer cover the code.

  * grid_time_flags PRIMARY KEY (start_epoch): `flags_keys_distinct`.
  * storm PRIMARY KEY (start_epoch), CHECK (start_epoch < thru_epoch): `trueRuns_start_inj`,
    `storm_is_maximal_heavy_run`.
  * zeta_interval PRIMARY KEY (start_epoch), CHECK (start_epoch < thru_epoch), REFERENCES water_level:
    `zeta_interval_keys_distinct`, `interstorm_rows_valid`, `interval_rows_have_levels`.
  * zeta_interval_storm PRIMARY KEY (interval_start_epoch), UNIQUE (storm_start_epoch): `pairing_injective`.
  * thresholds has a single row: a second `classify` is refused (Model/Txn.lean, `rerunnable`).
-/
namespace Spowtd.SchemaTie
open Spowtd

theorem thresholds_decl : Generated.thresholds =
    { name := "thresholds"
      cols := [{ name := "storm_rain_threshold_mm_h", type := "double precision", notnull := true, default := none },
               { name := "rising_jump_threshold_mm_h", type := "double precision", notnull := true, default := none },
               { name := "is_valid", type := "integer", notnull := true, default := some "1" }]
      pk := ["is_valid"]
      uniques := []
      checks := ["is_valid = 1"]
      fks := [] } := rfl

theorem grid_time_flags_decl : Generated.grid_time_flags =
    { name := "grid_time_flags"
      cols := [{ name := "start_epoch", type := "integer", notnull := true, default := none },
               { name := "is_jump", type := "boolean", notnull := true, default := none },
               { name := "is_mystery_jump", type := "boolean", notnull := true, default := none },
               { name := "is_interstorm", type := "boolean", notnull := true, default := none }]
      pk := ["start_epoch"]
      uniques := []
      checks := []
      fks := [{ cols := ["start_epoch"], table := "grid_time", refcols := ["epoch"] }] } := rfl

theorem storm_decl : Generated.storm =
    { name := "storm"
      cols := [{ name := "start_epoch", type := "integer", notnull := true, default := none },
               { name := "thru_epoch", type := "integer", notnull := true, default := none }]
      pk := ["start_epoch"]
      uniques := []
      checks := ["start_epoch < thru_epoch"]
      fks := [{ cols := ["start_epoch"], table := "grid_time", refcols := ["epoch"] },
              { cols := ["thru_epoch"], table := "grid_time", refcols := ["epoch"] }] } := rfl

theorem zeta_interval_decl : Generated.zeta_interval =
    { name := "zeta_interval"
      cols := [{ name := "start_epoch", type := "integer", notnull := true, default := none },
               { name := "interval_type", type := "text", notnull := true, default := none },
               { name := "thru_epoch", type := "integer", notnull := true, default := none }]
      pk := ["start_epoch"]
      uniques := [["start_epoch", "interval_type"]]
      checks := ["interval_type in ('storm', 'interstorm')", "start_epoch < thru_epoch"]
      fks := [{ cols := ["start_epoch"], table := "water_level", refcols := ["epoch"] },
              { cols := ["thru_epoch"], table := "water_level", refcols := ["epoch"] }] } := rfl

theorem zeta_interval_storm_decl : Generated.zeta_interval_storm =
    { name := "zeta_interval_storm"
      cols := [{ name := "interval_start_epoch", type := "integer", notnull := true, default := none },
               { name := "interval_type", type := "text", notnull := true, default := none },
               { name := "storm_start_epoch", type := "integer", notnull := true, default := none }]
      pk := ["interval_start_epoch"]
      uniques := [["storm_start_epoch"]]
      checks := ["interval_type = 'storm'"]
      fks := [{ cols := ["interval_start_epoch", "interval_type"], table := "zeta_interval", refcols := ["start_epoch", "interval_type"] },
              { cols := ["storm_start_epoch"], table := "storm", refcols := ["start_epoch"] }] } := rfl

end Spowtd.SchemaTie
