import SpowtdModel.Driver.ClassifyCmd
import SpowtdModel.Driver.LoadCmd
import SpowtdModel.Driver.CurvesCmd
import SpowtdModel.Driver.TxnCmd
import SpowtdModel.Driver.HydCmd
open Lean Spowtd Spowtd.Driver

def dispatch (cmd : String) (j : Json) : Except String Json :=
  match cmd with
  | "ping" => pure (Json.str "pong")
  | "runs" => cmdRuns j
  | "mystery" => cmdMystery j
  | "gs" => cmdGs j
  | "gs.check" => cmdGsCheck j
  | "disamb" => cmdDisamb j
  | "load.f" => cmdLoad (α := Float) j
  | "load.q" => cmdLoad (α := Rat) j
  | "timestamp" => cmdTimestamp j
  | "txn.check" => cmdTxnCheck j
  | "integrate.f" => cmdIntegrate j
  | "pwl.f" => cmdPwl j
  | "tspline.f" => cmdTSpline j
  | "peatclsm.sy.f" => cmdPeatSy j
  | "peatclsm.t.f" => cmdPeatT j
  | "curve.f" => cmdCurve j
  | "units.f" => cmdUnits j
  | "meanet.q" => cmdMeanET (α := Rat) j
  | "meanet.f" => cmdMeanET (α := Float) j
  | "pest" => cmdPest j
  | "pest.runins" => cmdRunIns j
  | "txn.footprints" => cmdFootprints j
  | "regrid.q" => cmdRegrid (α := Rat) j
  | "regrid.f" => cmdRegrid (α := Float) j
  | "headmap.q" => cmdHeadmap (α := Rat) j
  | "solve.q" => cmdSolve (α := Rat) j
  | "components.q" => cmdComponents (α := Rat) j
  | "residuals.q" => cmdResiduals (α := Rat) j
  | "assemble.q" => cmdAssemble (α := Rat) j
  | "refindex.q" => cmdRefIndex (α := Rat) j
  | "zetagrid.q" => cmdZetaGrid (α := Rat) j
  | "zetagrid.f" => cmdZetaGrid (α := Float) j
  | "pipeline.q" => cmdPipeline (α := Rat) j
  | "render" => cmdRender j
  | "classify.f" => cmdClassify (α := Float) j
  | "classify.q" => cmdClassify (α := Rat) j
  | "wf.f" => cmdWf (α := Float) j
  | "classifyidx.f" => cmdClassifyIdx (α := Float) j
  | "classifyidx.q" => cmdClassifyIdx (α := Rat) j
  | _ => throw s!"unknown command {cmd}"

def handle (line : String) : String :=
  let line := line.trimAscii.toString
  match line.splitOn " " with
  | [] => "bad-request empty"
  | cmd :: rest =>
    let body := " ".intercalate rest
    match Json.parse (if body.isEmpty then "null" else body) with
    | .error e => s!"bad-request {e}"
    | .ok j =>
      match dispatch cmd j with
      | .ok r => "ok " ++ r.compress
      | .error e => s!"bad-request {e}"

partial def loop (hin hout : IO.FS.Stream) : IO Unit := do
  let line ← hin.getLine
  if line.isEmpty then return ()
  hout.putStrLn (handle line)
  hout.flush
  loop hin hout

def main : IO Unit := do loop (← IO.getStdin) (← IO.getStdout)
