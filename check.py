#!/usr/bin/env python
"""Single entry point of the spowtd verification checks.

    check.py <id> --tier quick|thorough
    check.py <id> --replay <file>

Exit 0: the property held on everything explored (KNOWN-FINDING lines may be printed).
Exit 1: at least one line `VIOLATION property=<id> replay=<path>`.
Exit 2: infrastructure failure (never a verdict).
"""
import argparse
import importlib
import json
import os
import sys
import traceback

sys.path.insert(0, os.path.dirname(os.path.abspath(__file__)))

from harness import common  # noqa: E402


def main():
    ap = argparse.ArgumentParser()
    ap.add_argument("prop")
    ap.add_argument("--tier", default=os.environ.get("VERIF_TIER", "quick"), choices=["quick", "thorough"])
    ap.add_argument("--replay")
    args = ap.parse_args()
    if os.environ.get("VERIF_TIER") in ("quick", "thorough"):
        args.tier = os.environ["VERIF_TIER"]
    seed = int(os.environ.get("VERIF_SEED", "0"))
    prop = args.prop.upper()
    os.chdir(common.VERIF)
    try:
        mod = importlib.import_module("harness.%s" % prop.lower())
    except ImportError:
        print("no check for %s" % prop)
        traceback.print_exc()
        return 2
    ctx = common.Context(prop, args.tier, seed)
    try:
        aud = common.audit(mod.THEOREMS, schema_groups=getattr(mod, "SCHEMA_TIE", ()), sql_modules=getattr(mod, "SQL_TIE", ()),
                           tier=args.tier, formula_groups=getattr(mod, "FORMULA_TIE", ()))
        if args.replay:
            with open(args.replay) as fh:
                doc = json.load(fh)
            if doc.get("file_dialect_of_the_last_dataset_written"):
                from harness import cli as _cli
                _cli.FORCE_DIALECT[0] = doc["file_dialect_of_the_last_dataset_written"]
            ok = mod.replay(ctx, doc)
            if ok is True and doc.get("found_failing_input", True) and not os.environ.get("VERIF_REPLAY_INPUT_ONLY"):
                # the input-level replay sees nothing: the recorded case may depend on more than the stored input
                # (the kind of argument, the history of the process, the order of the stream) -- fall back to the stream
                ok = None
            if ok is None:
                # no input-level replay for this kind of case: re-run the stream that produced it, with the
                # recorded seed and tier, and look for a violation of the same oracle
                ctx2 = common.Context(prop, doc.get("tier", "quick"), int(doc.get("seed", 0)))
                try:
                    mod.run(ctx2)
                finally:
                    ctx2.cleanup()
                want = (doc.get("oracle") or {}).get("name")
                again = [v for v in ctx2.violations if v is not None and (want is None or v.obligation == want)]
                again += [k for k in ctx2.known_hits]
                ok = not again
                print("re-ran %s %s seed=%s: %d violation(s) of %s" % (prop, ctx2.tier, ctx2.seed, len(again), want))
            print("replay %s: %s" % (args.replay, "property holds on this input" if ok else "FAILS"))
            if not ok:
                print("VIOLATION property=%s replay=%s" % (prop, args.replay))
            return 0 if ok else 1
        if aud["build_ok"]:
            try:
                mod.run(ctx)
            except (KeyboardInterrupt, MemoryError):
                raise
            except Exception:
                # the streams themselves failed on what the implementation returned: the correspondence can no
                # longer be evaluated; not a verdict on the property by itself, but not a pass either
                tb = traceback.format_exc()
                sys.stderr.write(tb)
                ctx.corr_break("the check can interpret what the implementation returns (its streams run to the end)",
                               {"input": None, "exception": tb[-1500:]})
        else:
            # the Lean project no longer builds: that alone is not a violation of the property.  Search for a
            # failing input anyway, with the driver binary of the last successful build if there is one.
            try:
                mod.run(ctx)
            except Exception:
                ctx.notes.append("streams could not run without a working model driver: " + traceback.format_exc()[-400:])
        ctx.finalize(aud)
        common.write_evidence(ctx, aud, mod.THEOREMS, mod.TRUSTED_BASE, mod.ASSUMPTIONS, mod.RULE,
                              getattr(mod, "extra_evidence", lambda c: None)(ctx))
        for k in ctx.known_hits:
            print("KNOWN-FINDING: property=%s %s" % (prop, k["what"]))
        real = [v for v in ctx.violations if v is not None]
        for v in real:
            tail = "" if v.found else " no-failing-input-found"
            print("VIOLATION property=%s replay=%s%s" % (prop, os.path.relpath(v.replay, common.VERIF), tail))
        print("%s %s seed=%d: %d cases, %d distinct non-trivial, %d violations, %.1fs" % (
            prop, args.tier, seed, ctx.evaluations, len(ctx.distinct), len(ctx.violations),
            __import__("time").time() - ctx.t0))
        return 1 if ctx.violations else 0
    except Exception:
        traceback.print_exc()
        return 2
    finally:
        ctx.cleanup()


if __name__ == "__main__":
    sys.exit(main())
